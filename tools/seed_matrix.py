#!/venv/bin/python
"""Runs every seeded change of /verif/seeded against the check of its property
(scratch worktrees of /repo, never /repo itself), confirms the demonstration,
and (re)writes seeded/<id>/meta.json and seeded/MATRIX.md.

usage: tools/seed_matrix.py [--tier quick] [--only C05a,C07b] [--jobs 3]
"""
import argparse
import concurrent.futures
import json
import os
import re
import subprocess
import time

VERIF = os.path.dirname(os.path.dirname(os.path.abspath(__file__)))
SEEDED = os.path.join(VERIF, 'seeded')

# what each change needs in order to manifest (from the authors' notes)
NEEDS = {
    'C01a': 'candidate file name cached per thread id across fork: -j >= 2, '
            'strategy ddmin/hybrid (a check in the main process before the '
            'pool is forked), two workers writing their candidates at once',
    'C01b': 'matches_golden returns at the stdout match: --match-out given, '
            'stderr not ignored, a candidate with the match string on stdout '
            'but another stderr',
    'C02a': 'restart limited to the skipped prefix with a stale upper bound: '
            'a three-step history of successes inside the last pass',
    'C02b': 'exception handler hoisted out of the per-mutator loop: a node on '
            'which one mutator raises and a later one has the only proposal',
    'C03a': 'ReplaceByVariable may propose a defined nullary function for a '
            'leaf: define-fun y () Int x with y > x, command accepting both '
            'forms, hierarchical/hybrid',
    'C03b': 'EliminateVariable occurs-check on direct arguments only: '
            '(= x (- (abs x))), 5-step cycle with ReplaceByChild',
    'C04a': 'define-fun parameter sorts recorded unguarded: a parameter list '
            'with an entry of fewer than two children, (define-fun f ((x)) '
            'Int ..)',
    'C04b': 'one try per node instead of per mutator in the hierarchical '
            'producer: ill-formed node on which an earlier mutator raises',
    'C05a': 'parallel ddmin adopts a late success with a lower subset index '
            'after another subset of the batch was adopted: two successes of '
            'one batch completing out of order',
    'C05b': 'stale-result guard tests task.runtime instead of the abort '
            'flag: two accepted candidates of one base completing within the '
            'main loop latency, -j >= 2',
    'C06a': 'rename into place before the data is flushed: reader / SIGKILL '
            'between os.replace and close',
    'C06b': 'temporary copy in $TMPDIR moved with shutil.move: $TMPDIR on '
            'another filesystem than the output (EXDEV -> truncate and copy)',
    'C07a': '--wrap-lines loses track of a string literal after a doubled '
            'quote: expression longer than 78 columns, "" followed by a blank '
            'in a literal at the break column',
    'C07b': '--pretty-print with --wrap-lines wraps physical lines: a '
            'multi-line literal whose continuation line is longer than 78 '
            'columns',
    'C08a': 'comment ends only at LF: a comment terminated by a lone CR '
            'followed by more lexemes',
    'C08b': 'backslash-quote treated as an escape inside string literals',
    'C09a': 'a match string on one stream drops the equality requirement on '
            'the other: exactly one of --match-out/--match-err',
    'C09b': 'candidate files get the output file\'s extension: input and '
            'output with different extensions',
    'C10a': 'untimed communicate() after kill: the command leaves a '
            'grandchild holding the pipes',
    'C10b': 'timeout of the cross-check command derived from the main golden '
            'run: -c without --timeout-cc, slow main / quick cross-check',
    'C11a': 'untouched subtrees rebuilt once any replacement happened: two '
            'identity keys or a structural key with an untouched compound '
            'subtree in between',
    'C11b': 'a compound replacement is rewritten again by the remaining keys',
    'C12a': 'node id read outside the counter lock: two processes '
            'constructing nodes at the same time',
    'C12b': 'pickled leaf length counted in characters: non-ASCII leaf text',
    'C13a': 'reduplicate compares children structurally: shared node below a '
            'unique parent after an accepted sharing step',
    'C13b': 'ddmin reduplicates only when the expression count changed: an '
            'accepted step that shares a node with balance zero (variable by '
            'variable)',
    'C14a': 'theory detection overrides an explicit --no-<group>: group '
            'disabled, one of its mutators re-enabled, input not declaring '
            'the theory',
    'C14b': 'repeated group option returns early: group, opposite mutator '
            'option, same group option again (three options)',
    'C15a': 'regex character range in SimplifyQuotedSymbols admits , : ; - '
            'a quoted symbol such as |a;b|',
    'C15b': 'fresh declarations placed after the LAST set-info/set-logic: a '
            'set-info after the first term',
    'C16a': '(obsolete on the repaired tree) let typed by its body during '
            'table construction + width arithmetic on the unknown marker: the '
            'repair of get_bv_width makes this change harmless',
    'C16b': 'datatype tables no longer reset per input: a history in which a '
            'constructor name is reused as a function',
    'C17a': 'BvMergeExtend merges across zero_extend/sign_extend: chain of '
            'three extensions of mixed kind, msb of the operand set',
    'C17b': 'formal parameters substituted one at a time: an actual argument '
            'mentioning the name of a later formal parameter',
    'C18a': 'datatype constants kept in a set: enum with several nullary '
            'constructors competing for one position, different hash seeds',
    'C18b': 'late ddmin mutators collected by set difference: two late '
            'mutators competing for one term, different hash seeds',
    'C01c': '--wrap-lines may break inside string literals / quoted symbols '
            '(find from pos instead of pos + 1): expression longer than 78 '
            'columns with a blank inside a quoted token at the wrap column',
    'C01d': 'private copies of command and cross-check command keep their '
            'base names: -c with two different files of the same base name',
    'C02c': 'reduplicate never refreshes duplicated leaves (expr in ids): an '
            'accepted step inserting one leaf object at several places, then '
            'a proposal on a later copy that only there is accepted',
    'C02d': 'last pass appended only if a symbol mutator is enabled: both '
            'symbol mutators off, str-constants on, a string literal that '
            'can be shortened',
    'C03c': 'get_sort no longer caches unknown: arithmetic chain nested 20 '
            'deep in the first operand over a term of unknown sort '
            '(exponential filter time)',
    'C03d': 'LetSubstitution ignores capture by the binding\'s own symbol: '
            '(let ((x (+ x 1))) (> x 0)), 2-cycle with ReplaceByChild',
    'C04c': 'return inside finally in checker.execute swallows '
            'KeyboardInterrupt: SIGINT while the main process waits in '
            'communicate() (golden run or sequential ddmin)',
    'C04d': 'recursive count_nodes: a term nested deeper than ~800 levels '
            'that survives until the hierarchical phase',
    'C05c': 'worker cache of the unpickled base keyed by its length: '
            'parallel ddmin, an accepted step that keeps the pickle size '
            '(7 -> 0), then a second step in the same batch',
    'C05d': 'temporary file name cached in a module global before the pool '
            'is forked: -j >= 2, ddmin/hybrid, workers sharing one file',
    'C06c': 'os.remove then os.rename instead of os.replace: crash / reader '
            'between the two calls on the second or later rewrite',
    'C06d': 'hierarchical writes the file after the result loop instead of '
            'at the acceptance: interrupt while slow sibling checks drain, '
            '-j >= 2',
    'C07c': 'checking renderer caches renderings by id(expr) (memory '
            'address): a history in which top-level nodes are freed and '
            'their addresses reused',
    'C07d': 'default output drops empty physical lines: a literal or quoted '
            'symbol containing an empty line',
    'C08c': 'comment directly after an opening parenthesis is yielded at top '
            'level (emptiness test instead of None test)',
    'C08d': 'a ; directly after a plain token no longer ends the token',
    'C09c': 'subprocess text mode translates CR / CRLF to LF before the '
            'comparison: candidate output differing only in line endings',
    'C09d': 'an ignored stream with a match string must contain the string: '
            '--ignore-out with --match-out (or --ignore-output with a match)',
    'C10c': 'wall-clock limit rounded up to ceil(limit): non-integer limit '
            'and a candidate running between limit and ceil(limit)',
    'C10d': 'match-string validation skipped when the golden output is None: '
            'golden run killed at an explicit --timeout with --match-out/err',
    'C11c': 'fresh declarations inserted after the last set-info/set-logic: '
            'a set-info after the first ordinary command',
    'C11d': 'structural keys ignored once the identity keys are used up: a '
            'map mixing identity and structural keys',
    'C12c': 'deepcopy treats every child-less node as a leaf: a tree '
            'containing ()',
    'C12d': 'count_exprs skips the head of a list: a list whose first element '
            'is a list (indexed operators, binder lists)',
    'C13c': 'hierarchical reduplicates only the rewritten top-level commands: '
            'replacement object that also lives in an untouched command '
            '(inlined 0-ary define-fun), then an identity-keyed step',
    'C13d': 'reduplicate copies a shared empty list through the leaf path: '
            '() becomes (())',
    'C14c': 'theory detection credits a declaration to one theory only: '
            '(Array Int (_ BitVec 8)) as the only bit-vector declaration',
    'C14d': 'ddmin drops CheckSatAssuming when EraseNode is disabled: '
            '--no-erase-node, strategy ddmin/hybrid',
    'C15c': 'BVReduceBW checks freshness of _v with is_var: _v declared as a '
            'function with arguments',
    'C15d': 'StringSimplifyConstant yields its two edge candidates unchecked: '
            'a literal whose content starts or ends with an escaped quote',
    'C16c': 'declare-datatypes loop variable shadows the datatype index: a '
            'block of two datatypes, a constructor with k selectors (k-1 != '
            'position) followed by another constructor',
    'C16d': 'selector application typed by the argument position of ANY '
            'constructor: selector applied to another constructor of the '
            'datatype',
    'C17c': 'width of concat with an operand of unknown width summed with '
            'the marker: extract of zero_extend of such a concat',
    'C17d': 'BVEvalExtend sign test val > 2**(w-1): sign_extend of exactly '
            'the minimum signed value',
    'C18c': 'hierarchical main loop drops late results by task.runtime: -j 1 '
            'with the main process delayed between a result and the abort '
            'signal for longer than one check',
    'C18d': 'fresh declarations of a grouped ddmin step passed through a set: '
            'two declarations in one step, different hash seeds',
    # third wave (authored against the tree with every repair)
    'C01e': 'a timed-out run reported with exit status -9: golden run killed '
            'by SIGKILL, both streams ignored, a candidate that runs into '
            'the time limit',
    'C01f': 'ignore options of the command under test leak into the cross '
            'check: -c given, --ignore-out/err for the main command, no '
            '--ignore-output-cc, a candidate on which the cross check keeps '
            'its exit status and changes the leaked stream',
    'C02e': 'symbol tables re-collected only when the node count changes: '
            'an accepted rename (last pass) followed by a proposal that needs '
            'the sort of the renamed symbol',
    'C02f': 'candidate file name memoised per process and inherited across '
            'fork: hybrid, -j >= 2, a check in the main process first, two '
            'workers writing their candidates at once',
    'C03e': 'get_sort knows (as f S): a non-leaf default constant of a set '
            'sort gets a fresh variable / a variable, which Constants '
            'replaces by that constant again',
    'C03f': 'parallel ddmin retries a late success from its subset index: '
            'two removable subsets of one level, the check of the first '
            'slower, -j >= 2',
    'C04e': 'guard on runtime None removed from the statistics: -v, '
            'hierarchical phase, a check that raises in the worker (output '
            'that is not UTF-8)',
    'C04f': 'tokens scanned with a wider white-space class than the '
            'dispatcher: form feed, vertical tab, NEL, no-break space outside '
            'literals',
    'C05e': 'parallel ddmin does not refresh the pickled base once the '
            'generator handed out its last subset: two adoptions in one '
            'level, -j >= 2',
    'C05f': 'ddmin drops the result of a top-level pass whose accepted steps '
            'removed only leaves (comments): a later accepted step derives '
            'from the superseded input',
    'C06e': 'temporary file committed in finally: an interrupt between two '
            'low-level writes of a rewrite of the output',
    'C06f': 'SIGINT re-raised with the default disposition before the '
            'clean-up: any interrupt, look at $TMPDIR after exit',
    'C09e': 'candidate file name memoised per thread id, inherited across '
            'fork: ddmin/hybrid, -j >= 2',
    'C09f': 'streams the main command ignores are not captured for the cross '
            'check either: -c, --ignore-out/err, no --ignore-output-cc',
    'C10e': '--memout through RLIMIT_DATA: memory obtained by an anonymous '
            'shared mapping beyond the limit',
    'C10f': 'time limit enforced with SIGTERM: a command that ignores '
            'SIGTERM',
    'C11e': 'structural key mapped to None treated as no entry: deletion of '
            'a subtree designated by structure',
    'C11f': 'identity entries not consumed on use: an input in which one '
            'node object occurs at several positions (outside the trees the '
            'property quantifies over; see DESIGN 11)',
    'C13e': 'ids handed out in per-process blocks, a fork inherits a '
            'half-used block: a worker process applies a sharing '
            'simplification',
    'C13f': 're-duplication moved into the sequential branch of ddmin only: '
            '-j >= 2, a parallel round accepting a sharing simplification',
    'C14e': 'theory detection re-run on the reduced input when the second '
            'phase of hybrid starts: every declaration of the theory removed '
            'by ddmin, literals of the theory left',
    'C14f': 'ddmin switches binary-reduction off in the shared option '
            'namespace: hybrid, the hierarchical phase inherits it',
    'C18e': 'a timed-out check reports the partial output: minimising a '
            'hang (golden run times out, explicit --timeout), a command that '
            'prints progress lines',
    'C18f': 'automatic time limit of the cross check derived from the main '
            'golden run: a slow reference solver, a fast main command',
    # fourth wave
    'C07e': 'pretty printer indents the continuation lines of a multi-line '
            'token: --pretty-print, a literal or quoted symbol with a newline '
            'printed by the leaf branch at depth >= 1',
    'C07f': '--wrap-lines fast path through textwrap.fill breaks after '
            'hyphens: a quote-free line longer than 78 columns with a '
            'hyphenated identifier across column 78',
    'C08e': 'a list holding exactly one string literal or quoted symbol '
            'loses its parentheses: ("a"), (get-value ("lit"))',
    'C08f': 'a literal that ends exactly at the end of the text is dropped: '
            'text ending in the closing quote or bar',
    'C12e': 'pickled form cached on structural equality: an equal tree with '
            'other ids pickled after the first (a history of two pickles)',
    'C12f': 'hash computed lazily recurses: a tree nested >= 495 deep whose '
            'hashes nobody asked for yet',
    'C15e': 'fresh declarations filtered by tables local to the process '
            'that collected them + a mutator re-proposing declared names: '
            'second str.contains rewrite applied in a pool worker',
    'C15f': 'BVReduceBW uses the plain name of a quoted variable after '
            'testing its first character only: |v 1|',
    'C16e': 'a let binding whose inference raises inherits the sort of the '
            'previous binding: a second binding several hundred levels deep',
    'C16f': 'select over a store of unknown sort typed by the index of the '
            'store: base array an application of a declared function or a '
            'parameter',
    'C17e': 'capture guard of LetSubstitution ignores names bound by the '
            'same let: (let ((x y) (y 1)) (+ x y))',
    'C17f': 'selector positions half-converted to 1-based: singular '
            'declare-datatype with RemoveDatatypeIdentity',
    # fifth wave
    'C01g': 'temporary file committed in finally: a fault (EFBIG, interrupt) '
            'during a rewrite of the output leaves a prefix of the accepted '
            'candidate',
    'C01h': '"unable to minimize" writes the re-rendered input: a run with '
            'no accepted step on an input the parser does not reproduce '
            'token for token',
    'C03g': 'InlineDefinedFuns compares by identity: after a rename makes a '
            'definition call itself, inlining proposes an equal copy (no-op '
            'accepted forever)',
    'C03h': 'a let binder shadowing a declared symbol is not registered as '
            'let-bound: LetSubstitution <-> ReplaceByVariable 2-cycle',
    'C05g': 'parallel ddmin worker records the hash of a new input before '
            'unpickling and returns on the abort flag: later tasks applied '
            'to the superseded input (interleaving inside the main process)',
    'C05h': 'reduce() swallows an exception escaping a second-stage mutator '
            'application and continues from the stale input: a transient '
            'fault after an adopted step',
    'C10g': 'proc.wait() after the kill turns a timed-out run into exit -9: '
            'golden run dying by SIGKILL, outputs ignored, a hanging '
            'candidate',
    'C10h': 'validation of --match-err chained by elif: both --match-out and '
            '--match-err given, the stderr string missing from the golden '
            'run',
    'C13g': 'last (granularity 1) round of a mutator not re-duplicated: a '
            'sharing step accepted in that round, then another mutator',
    'C13h': 'reduplicate copies a repeated compound node by a pickle round '
            'trip (ids preserved)',
    'C18g': 'time limit shrinks after each accepted check: slow golden run, '
            'a fast accepted check, then a slow one in one run only',
    'C18h': 'sequential ddmin writes the output in a background thread: '
            'large output, fast command, two consecutive accepted subsets',
    # sixth wave
    'C02g': 'Producer folds local and global proposals into one helper that '
            'returns only the local ones for mutators having both: a command '
            'accepting a global proposal (un-quoting a symbol everywhere, a '
            'push/pop pair) while rejecting every local one',
    'C02h': 'ddmin_passes disables binary reduction through the shared '
            'option namespace: hybrid, a block removable only by binary '
            'reduction that ddmin chunks cannot reach',
    'C04g': 'progress bar percentage divides by the node count: terminal '
            'stdout, -v, hierarchical/hybrid, a sweep on an input with zero '
            'nodes',
    'C04h': 'match-string validation refactored into a helper whose second '
            'result overwrites the first: --match-out absent from the golden '
            'output, --match-err present',
    'C06g': 'special-file guard not os.path.isfile() also true for a missing '
            'output: the FIRST rewrite is in place (truncate and fill)',
    'C06h': 'ddmin writes the output from a thread pool, writers share the '
            'pid-named temporary file: two acceptances closer than one write',
    'C07g': 'Node.__str__ iterative with a textual fix-up of "( " and " )": '
            '--pretty-print, a flat list with a literal / quoted symbol / '
            'comment containing "( " or " )"',
    'C07h': 'checking renderer uses writelines without separators: adjacent '
            'top-level atoms or literals',
    'C08g': 'CR LF collapsed to LF before lexing: a string literal or quoted '
            'symbol spanning a CR LF line end',
    'C08h': 'literals scanned with a regex whose escape needs a preceding '
            'ordinary character: a literal starting with an escaped quote',
    'C09g': 'match strings compared with re.search: a match string with '
            'regex metacharacters',
    'C09h': 'command re-split with shlex.split(" ".join(cmd)): a command '
            'argument with blanks, quotes, backslashes or empty',
    'C11g': 'node ids from a per-process itertools.count: a pending '
            'simplification applied by another worker whose counter collides '
            'with the id of the replaced node',
    'C11h': 'apply_simp drops entries with k != v false: identity key whose '
            'replacement numeral spells the id of the node',
    'C12g': 'dfs expands a node object that occurs several times only once: '
            'trees with shared list nodes',
    'C12h': 'ids handed out from a per-process block of 512 that a fork '
            'inherits: trees built on both sides of a fork compare equal',
    'C14g': 'theory detection stops scanning at the first assert: every '
            'declaration of a theory after the first assert, no group option',
    'C14h': 'ddmin pre-filters its mutators once against the original input: '
            'a mutator that only applies after another simplification',
    'C15g': 'EliminateVariable caches the occurrences of its target per '
            'mutator object: the equality visited again after another '
            'accepted step removed an occurrence',
    'C15h': 'pickled leaf length counted in characters in __getstate__: '
            'non-ASCII literal, proposals applied in a worker',
    'C16g': 'every remaining str.* operator typed String: str.to_re',
    'C16h': 'IntroduceFreshVariable remembers the sort between filter and '
            'global_mutations: ddmin with granularity > 1, mixed sorts, a '
            'compound sort last',
    'C17g': 'define-fun parameter sorts written into the global name-keyed '
            'table: a parameter named like a constant of another width, '
            'extract of zero_extend',
    'C17h': 'FPShortSort keyed on eb + sb: (_ FloatingPoint 6 10)',
    # seventh wave
    'C18i': 'hierarchical resume position taken from EVERY result (also '
            'aborted ones ahead of the accepted node): -j 1, more candidates '
            'after an accepted node than fit into the pool pipe, a '
            'non-monotone command, different check durations',
    'C03i': 'untimed communicate() after the kill at the time limit: a '
            'wrapper command whose blocked child inherited the pipes (no CPU '
            'use), a candidate that runs into --timeout',
    'C13i': 'hierarchical main loop prefers a late success of an earlier '
            'node after the abort signal and adopts it without '
            're-duplication: two successes of one sweep, the later node '
            'first, -j >= 2, a sharing simplification',
    'C05i': 'write_smtlib_to_file keeps the smaller file: an accepted step '
            'whose rendering is larger than the previous output (implication '
            'elimination, let substitution) is adopted but not written',
    'C01i': 'Popen with text=True translates CR / CRLF of the command\'s '
            'output to LF: exact comparison, a candidate whose output differs '
            'from the golden one in line endings only',
    'C10i': '--memout applied only when a time limit is passed: --memout '
            'without --timeout, the golden run itself exceeds the memory '
            'limit',
}
# checks of other properties that also see a change
ALSO = {'C02c': ['C13'], 'C02d': ['C14'], 'C06d': ['C02'], 'C01c': ['C07'], 'C11c': ['C15'], 'C10d': ['C04'], 'C17c': ['C16'],
        'C18c': ['C05'], 'C05d': ['C01'], 'C03d': ['C17'],
        'C01b': ['C09'], 'C02b': ['C04'], 'C04b': ['C02'], 'C15b': ['C11'],
        'C13a': ['C12'], 'C11b': ['C17'], 'C17b': ['C11'],
        'C13e': ['C12'], 'C01f': ['C09'], 'C09e': ['C01'], 'C02f': ['C01'],
        'C03f': ['C05'], 'C11f': ['C13'], 'C01g': ['C06'],
        'C10g': ['C01'], 'C10h': ['C04'], 'C18h': ['C06'],
        'C04h': ['C10'], 'C06h': ['C18'], 'C15h': ['C12'], 'C12h': ['C13'],
        'C11g': ['C12'], 'C17g': ['C16'], 'C16h': ['C15'],
        'C01i': ['C09'], 'C13i': ['C05'], 'C03i': ['C10'], 'C18i': ['C05', 'C02']}


def sh(cmd, timeout=7200):
    t0 = time.time()
    p = subprocess.run(cmd, stdout=subprocess.PIPE, stderr=subprocess.STDOUT,
                       timeout=timeout)
    return p.returncode, p.stdout.decode('utf-8', 'replace'), time.time() - t0


def one(args):
    sid, tier = args
    d = os.path.join(SEEDED, sid)
    prop = sid[:3]
    rc, out, _ = sh([os.path.join(VERIF, 'tools', 'seed_verify.sh'), d])
    m = re.search(r"demo-clean=(\d+) tests='([^']*)' demo-patched=(\d+)", out)
    verify = {'ok': rc == 0,
              'demo_clean_exit': int(m.group(1)) if m else None,
              'tests': m.group(2) if m else None,
              'demo_patched_exit': int(m.group(3)) if m else None}
    checks = {}
    for pid in [prop] + ALSO.get(sid, []):
        rc, out, dt = sh([os.path.join(VERIF, 'tools', 'mutant_run.sh'),
                          os.path.join(d, 'patch.diff'),
                          os.path.join(VERIF, 'check'), pid, '--tier', tier])
        sigs = re.findall(r'^  signature: (.*)$', out, re.M)
        checks[pid] = {'exit': rc, 'seconds': round(dt),
                       'violation_lines': out.count('VIOLATION property='),
                       'first_signatures': [s[:160] for s in sigs[:3]]}
    meta = {
        'id': sid, 'property': prop,
        'needs_to_manifest': NEEDS.get(sid, ''),
        'confirmed': verify,
        'ran': [f'tools/seed_verify.sh seeded/{sid}'] + [
            f'tools/mutant_run.sh seeded/{sid}/patch.diff ./check {p} '
            f'--tier {tier}' for p in checks],
        'checks': checks,
        'detected': any(c['exit'] == 1 for c in checks.values()),
    }
    mp = os.path.join(d, 'meta.json')
    if os.path.exists(mp):
        try:
            old = json.load(open(mp))
            if old.get('obsolete'):
                meta['obsolete'] = old['obsolete']
        except ValueError:
            pass
    with open(mp, 'w') as f:
        json.dump(meta, f, indent=1)
    return meta


def main():
    ap = argparse.ArgumentParser()
    ap.add_argument('--tier', default='quick')
    ap.add_argument('--only')
    ap.add_argument('--jobs', type=int, default=3)
    a = ap.parse_args()
    ids = sorted(x for x in os.listdir(SEEDED)
                 if os.path.isdir(os.path.join(SEEDED, x)))
    if a.only:
        ids = [x for x in ids if x in a.only.split(',')]
    with concurrent.futures.ThreadPoolExecutor(a.jobs) as ex:
        metas = list(ex.map(one, [(i, a.tier) for i in ids]))
    # the matrix covers every seed (others from their meta.json)
    rows = []
    for x in sorted(os.listdir(SEEDED)):
        mp = os.path.join(SEEDED, x, 'meta.json')
        if os.path.exists(mp):
            rows.append(json.load(open(mp)))
    with open(os.path.join(SEEDED, 'MATRIX.md'), 'w') as f:
        f.write('| seed | confirmed (demo clean / tests / demo patched) | '
                'check exits (1 = detected) | needs |\n|---|---|---|---|\n')
        for m in rows:
            c = m['confirmed']
            f.write(f"| {m['id']} | {c['demo_clean_exit']} / {c['tests']} / "
                    f"{c['demo_patched_exit']} | " +
                    ', '.join(f"{p}: {v['exit']} ({v['seconds']}s)"
                              for p, v in m['checks'].items()) +
                    f" | {m['needs_to_manifest']}" +
                    (' — OBSOLETE: ' + m['obsolete'] if m.get('obsolete')
                     else '') + " |\n")
    for m in metas:
        print(m['id'], 'confirmed' if m['confirmed']['ok'] else 'NOT-CONFIRMED',
              {p: v['exit'] for p, v in m['checks'].items()})


if __name__ == '__main__':
    main()
