#!/bin/sh
# usage: tools/seed_verify.sh <dir with patch.diff and demo.py|demo.sh>
# Confirms a seeded change in a scratch worktree of /repo: the demonstration
# passes on the unchanged tree, the patch applies, the repository's tests pass
# with it, and the demonstration fails with it.  Prints one summary line.
set -u
d="$(realpath "$1")"
wt="$(mktemp -d /var/tmp/ddsmt-seedv.XXXXXX)"; rmdir "$wt"
git -C /repo worktree add -q --detach "$wt" HEAD || exit 2
cleanup() { git -C /repo worktree remove --force "$wt" 2>/dev/null; rm -rf "$wt"; git -C /repo worktree prune; }
trap cleanup EXIT INT TERM
if [ -f "$d/demo.py" ]; then demo="/venv/bin/python $d/demo.py"; else demo="sh $d/demo.sh"; fi
cd "$wt" || exit 2
timeout 600 $demo "$wt" >"$wt.clean.log" 2>&1; c=$?
git apply "$d/patch.diff" || { echo "SEED $d: patch does not apply"; exit 2; }
t=$(/venv/bin/python -m pytest -q -p no:cacheprovider --timeout=900 2>&1 | tail -1)
timeout 600 $demo "$wt" >"$wt.patched.log" 2>&1; p=$?
echo "SEED $d: demo-clean=$c tests='$t' demo-patched=$p"
tail -3 "$wt.patched.log" | cut -c1-300
rm -f "$wt.clean.log" "$wt.patched.log"
[ "$c" = 0 ] && [ "$p" != 0 ] && echo "$t" | grep -q "117 passed"
