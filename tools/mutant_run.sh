#!/bin/sh
# usage: tools/mutant_run.sh <patch.diff> <command...>
# Applies the patch to a scratch worktree of /repo (outside /repo and /verif),
# runs the command with DDSMT_REPO pointing at it and evidence/replays
# redirected to the scratch area, then removes the worktree.
set -u
patch="$(realpath "$1")"; shift
wt="$(mktemp -d /var/tmp/ddsmt-mutant.XXXXXX)"
rmdir "$wt"
git -C /repo worktree add -q --detach "$wt" HEAD || exit 2
cleanup() { git -C /repo worktree remove --force "$wt" 2>/dev/null; rm -rf "$wt" "$wt.out"; git -C /repo worktree prune; }
trap cleanup EXIT INT TERM
git -C "$wt" apply "$patch" || { echo "patch does not apply"; exit 2; }
mkdir -p "$wt.out"
DDSMT_REPO="$wt" VERIF_EVIDENCE_DIR="$wt.out/evidence" VERIF_REPLAY_DIR="$wt.out/replays" "$@"
rc=$?
echo "[mutant_run] exit status $rc"
exit $rc
