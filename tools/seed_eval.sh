#!/bin/sh
# usage: tools/seed_eval.sh <seed dir> <property id> [tier]
# Verifies the seeded change (seed_verify.sh), then runs the property's check
# against a scratch worktree with the patch applied.  Prints
#   SEEDEVAL <dir> verify=<ok|bad> check-exit=<rc> (<seconds>s)
d="$(realpath "$1")"; id="$2"; tier="${3:-quick}"
here="$(dirname "$0")"
if "$here/seed_verify.sh" "$d" >"$d/verify.log" 2>&1; then v=ok; else v=bad; fi
s=$(date +%s)
"$here/mutant_run.sh" "$d/patch.diff" "$here/../check" "$id" --tier "$tier" >"$d/check-$id-$tier.log" 2>&1
rc=$?
echo "SEEDEVAL $d prop=$id tier=$tier verify=$v check-exit=$rc ($(( $(date +%s)-s ))s)"
