#!/venv/bin/python
"""Regenerates /verif/MANIFEST.json from the table below (single source)."""
import json
import os

VERIF = os.path.dirname(os.path.dirname(os.path.abspath(__file__)))

ALL = [f'C{i:02d}' for i in range(1, 19)]

# property -> dict(level, text, note, technique, engine, design_ref)
CHECKS = {}


def chk(pid, level, text, note, technique, engine, ref):
    CHECKS[pid] = dict(level=level, text=text, note=note, technique=technique,
                       engine=engine, ref=ref)


chk('C08', 'model_checking',
    'TLC enumerates every in-scope SMT-LIB text up to a length bound over a '
    'class alphabet with the reader specified as a character-level state '
    'machine (Lexer.tla, written from the standard), checks the model\'s own '
    'sanity invariants, and every final state (text, expected tokens, expected '
    'forest) is replayed into nodeio.parse_smtlib: exhaustive up to the bound, '
    'which is where lexer faults live (adjacent lexeme classes).',
    'Class representatives stand for their classes; texts longer than the '
    'bound are not enumerated; the TLA+ reader is the trusted statement of the '
    'standard (cross-checked against an independent Python reader in the same '
    'run).',
    'TLA+ reader spec as exhaustive case generator (TLC state dump) replayed '
    'into the implementation',
    'Lexer.tla', 'DESIGN.md section 5, C08')


chk('C07', 'model_checking',
    'TLC enumerates every forest up to the node bound (GenForest.tla) and '
    'SExpr!Tokens/Shape state what every rendering must read back as; each '
    'forest is expanded with every pair of lexical classes (18 classes: long '
    'and hyphenated tokens, string literals with blanks/parentheses/;/newline/'
    'doubled quotes, quoted symbols, comments ...) plus width-sensitive padded '
    'variants and rendered by all four renderers; a sample of (forest, text) '
    'pairs is judged by TLC itself (Conform.tla, LexText(text) = Tokens(f)).',
    'One representative text per lexical class; forests beyond the bound are '
    'not enumerated; token comparison outside TLC uses the reference reader '
    'validated against LexerOps.tla by C08.',
    'TLA+ forest generator + reference operators replayed into the four '
    'renderers; TLC trace validation of recorded renderings',
    'GenForest.tla, SExpr.tla, LexerOps.tla, Conform.tla', 'DESIGN.md section 5, C07')

chk('C11', 'model_checking',
    'SExpr!SubstF/SubstConsuming/IntroduceVars are the statement of the '
    'property (on inputs with sharing an identity key is consumed by its '
    'first occurrence in pre-order: OneOccurrencePerKey); TLC '
    'enumerates every (forest, simplification) pair of a bounded family '
    '(identity keys with delete/leaf/tree/existing-subtree replacements, '
    'structural keys whose replacement contains its own or the other key, '
    'declarations after a set-logic prefix; one configuration over forests '
    'WITH sharing) and each final state is replayed '
    'into mutator_utils.apply_simp under a watchdog; tokens, identities of '
    'untouched nodes and immutability of the base are compared.',
    'Bounded forests (<= 5/6 positions) and <= 2 keys of a kind; identity keys '
    'designate non-nested nodes; nodes the specification leaves unspecified '
    'may carry any identity.',
    'TLA+ reference semantics of substitution as exhaustive case generator '
    '(TLC dump) replayed into the implementation',
    'GenSubst.tla, SExpr.tla', 'DESIGN.md section 5, C11')

chk('C12', 'model_checking',
    'SExpr!StructEq/Dfs/Bfs/CountNodes/CountExprs evaluated by TLC on every '
    'forest with sharing up to the bound (all pairs of trees up to 6/7 '
    'positions as two top-level trees); each final state is replayed into '
    'ddsmt.nodes in-process (==, hash, deepcopy, pickle, dfs/bfs with depth '
    'limits, counts, filter_nodes) and across a fork-based Pool(3) under three '
    'leaf-text expansions (ASCII, empty string, non-BMP Unicode). '
    'IdCounter.tla models the shared id counter (lock, increment, read as '
    'separate steps of several processes; TLC: Unique); histories of ids '
    'handed to processes constructing nodes concurrently are judged by TLC '
    '(IdCounter!HistoryOK). The same laws (hash and == agree with token '
    'equality, deepcopy, pickling in process and through a worker, counts) '
    'are checked directly on chains nested up to 3000 (thorough 20000) deep, '
    'freshly parsed and freshly built.',
    'Hash collisions between different shapes are not constructed; trees '
    'beyond the bound are not enumerated (deep chains are checked against '
    'the laws, not against a TLC-computed value: the JSON reader of TLC stops '
    'at 255 levels).',
    'TLA+ reference operators on TLC-enumerated trees replayed into the '
    'implementation, in-process and across processes',
    'GenForest.tla, SExpr.tla, IdCounter.tla, Conform.tla', 'DESIGN.md section 5, C12')

chk('C13', 'model_checking',
    'SExpr!ReduplicateOK / DistinctIds evaluated by TLC on every forest with '
    'sharing (shared leaves, lists and empty lists, also at top level) up to '
    'the bound; every final state is replayed into nodes.reduplicate: tokens '
    'unchanged, identities pairwise distinct, clean nodes keep identity, '
    'argument unmodified.  Recorded runs over inputs with sharing mutators are validated by '
    'TLC (TraceHier/TraceDdmin: the input of every Producer/TaskGenerator is '
    'a tree); runs observed without the launcher creating nodes in the main '
    'process (light mode, only the sharing mutator enabled) record the inputs '
    'of producers/generators and argument and result of reduplicate with '
    'their identities, judged by TLC (Conform.tla: ReduplicateOK).',
    'Bounded DAGs (<= 6/7 positions); a node must keep its identity only if '
    'nothing below it had to be copied.',
    'TLA+ reference predicate on TLC-enumerated DAGs replayed into the '
    'implementation',
    'GenForest.tla, SExpr.tla, Conform.tla, TraceHier.tla, TraceDdmin.tla', 'DESIGN.md section 5, C13')

STRAT_NOTE = ('Completion orders of the real pool are sampled (free-running '
              'runs with seeded command delays), the model covers all of them; '
              'the native reduction system of the model (erase/replace on a '
              'flat list) abstracts the real mutators; the launcher wraps '
              'module-level functions and adds only a logging lock.')

chk('C01', 'model_checking',
    'Hier.tla / Ddmin.tla state OutfileAccepted (the file always holds an '
    'input the command was run on and accepted) and TLC checks it for all '
    'deterministic commands x all schedules of producer, workers, result '
    'delivery and main loop. Real CLI runs (3 strategies x -j 1/2/4 x 3 output '
    'modes x comparison options, some with a cross check) are recorded by a '
    'launcher and validated by TLC against TraceHier/TraceDdmin, which replay '
    'them through the model\'s own main-loop action bodies; from outside the '
    'final file\'s tokens must be a run-and-accepted candidate of the command '
    'log, the re-run command must match golden, the input must be unchanged. '
    'Session.tla composes the phases (hybrid = ddmin, then hierarchical): '
    'hand-over, report and the file at exit of every run are validated by '
    'TraceSession.',
    STRAT_NOTE,
    'TLC model checking of the strategy specs + TLC trace validation of '
    'recorded CLI runs + external re-run of the command',
    'Hier.tla, HierBad.tla, Ddmin.tla, Session.tla, TraceHier.tla, '
    'TraceDdmin.tla, TraceSession.tla',
    'DESIGN.md section 5, C01')

chk('C02', 'model_checking',
    'Hier.tla states FixedPoint and LastSweepFull at termination; TLC checks '
    'them over all commands and schedules (discarded successes, restarts, '
    'pass changes). Recorded hierarchical/hybrid runs are validated by TLC '
    '(TraceHier: the end event is accepted only after a sweep of the last '
    'pass from node 0 on the final input that adopted nothing); every '
    'proposal of every enabled mutator on the output is enumerated and the '
    'command predicate evaluated; ddSMT is re-run on its own output. '
    'Specification -> code: HierSched.tla (Hier.tla restricted to the '
    'behaviours a scheduler can dictate) is instantiated with the reduction '
    'system EXTRACTED from the real passes and mutators on tiny inputs; TLC '
    'checks FixedPoint/LastSweepFull on it for all deterministic commands x '
    'all dictatable completion orders and prints every behaviour; a sample '
    '(thorough: all) is replayed into the real pool - the command accepts '
    'exactly the behaviour\'s verdict function, the scheduler releases the '
    'checks in its completion order - and the fixed point of each output is '
    'read off the extracted task table.',
    STRAT_NOTE + ' Commands in this check do not distinguish fresh-variable '
    'names.',
    'TLC model checking + TLC trace validation + replay of TLC-generated '
    'behaviours into the real strategy + exhaustive external enumeration of '
    'proposals on the output',
    'Hier.tla, HierBad.tla, HierSched.tla, TraceHier.tla',
    'DESIGN.md section 5, C02')

chk('C05', 'model_checking',
    'Hier.tla / Ddmin.tla state Chain, NoStaleAdoption and FinalIsLast; TLC '
    'checks them over every completion order for 2-3 workers, including two '
    'workers succeeding before either sees the abort flag and (ddmin) a task '
    'assembled while stop/update runs. Free-running real runs (-j 2/3/4, '
    'permissive commands so that several candidates of a sweep succeed, '
    'seeded delays) are validated by TLC: every write must be the adoption of '
    'a task of the current sweep/batch derived from the current input and '
    'accepted by a check of exactly that candidate. In further runs the '
    'completion order of the checks is dictated by a scheduler the command '
    'blocks on (every sequence of choices of a depth), and the main loop is '
    'delayed after successes; all validated by TLC. Across the phases of '
    'hybrid the chain is the one of Session.tla (HandOver: a phase starts '
    'from what the previous one returned, which is the last written input), '
    'validated on every run by TraceSession; the applications of '
    'strategy_ddmin.reduce (stage order, repetition of top-level passes until '
    'they reduce nothing, granularity schedule, reductions counted, return '
    'only after a quiet sweep) are validated by TraceDdminOuter; faulty '
    'variants of both models are refuted by TLC. Specification -> code: '
    'behaviours that TLC generates from HierSched.tla over the reduction '
    'system extracted from the real passes (all verdict functions x all '
    'dictatable completion orders) are replayed into the real pool and '
    'compared step by step (sweeps: pass, skip, input; adoption chain; file '
    'at exit); the generator of a parallel ddmin round is slowed down '
    'between its test of `stopped` and its read of the current input (the '
    'model\'s GenBegin/GenEnd window). Every behaviour of sequential ddmin '
    'over 4 assertions (DdminEmit.tla; thorough: 5 and 6) is replayed with '
    '-j 1: the inputs written by the first mutator must be the behaviour\'s '
    'chain.',
    STRAT_NOTE,
    'TLC model checking of all interleavings + TLC trace validation of '
    'free-running and schedule-enumerated parallel executions + replay of '
    'TLC-generated behaviours into the real strategy',
    'Hier.tla, HierBad.tla, HierSched.tla, Ddmin.tla, DdminBad.tla, '
    'DdminEmit.tla, DdminOuter.tla, '
    'Session.tla, TraceHier.tla, TraceDdmin.tla, TraceDdminOuter.tla, '
    'TraceSession.tla',
    'DESIGN.md section 5, C05')

chk('C18', 'model_checking',
    'Hier.tla with one worker satisfies FirstSuccessAdopted for every schedule '
    'of producer thread, worker and main loop, Ddmin.tla in sequential mode '
    'has no schedule at all (TLC). Each -j 1 configuration is run 3 times '
    'with PYTHONHASHSEED 0/1/random and different delays of the command (and '
    'of a slow reference solver; also minimising a hang that prints progress '
    'lines): accepted '
    'sequences and output bytes must be identical; TLC validates each trace '
    'with the one-job clause (an adoption only after every earlier task of '
    'the sweep was tested and rejected).',
    STRAT_NOTE,
    'TLC model checking (1 worker) + repeated runs under different hash seeds '
    '+ TLC trace validation',
    'Hier.tla, HierBad.tla, Ddmin.tla, TraceHier.tla, TraceDdmin.tla',
    'DESIGN.md section 5, C18')

chk('C15', 'model_checking',
    'The contract of one proposal is stated in TLA+ (Conform.tla): '
    'LexText(rendered text) = Tokens(result) and ReadText has its shape (every '
    'leaf is one token; the tree in memory is what a reader parses from the '
    'file), declared symbols are not declared in the input and precede their '
    'first use. All 53 mutators x all BFS nodes x all proposals are enumerated '
    'with the real code on well-sorted seed scripts over every theory and on '
    'their partially reduced forms; identity keys, apply and render are '
    'checked while recording and TLC judges every suspect pair plus a sample '
    'of the others.',
    'Inputs are the hand-kept seeds (lib/seeds.py) and forms derived from '
    'them, not all well-sorted scripts; the pre-screen uses the reference '
    'reader validated against LexerOps.tla by C08; a raising mutator costs '
    'only its candidates.',
    'TLC validation (Conform.tla) of recorded proposals of the real mutators',
    'Conform.tla, LexerOps.tla, SExpr.tla', 'DESIGN.md section 5, C15')

chk('C04', 'model_checking',
    'Main.tla states the phases, usage errors and exit status (TLC: status 0 '
    'iff the run reached the report phase) and generates the usage matrix '
    '(faults, golden runs that time out, every general option); '
    'GenShapes.tla generates every special identifier of the sources x arity '
    'x child shape, GenEdits.tla every declaration / definition / binder '
    'command with one or two subtrees erased or replaced. Every shape (top '
    'level, inside an assert, as a let-bound term, plus unbalanced/odd/deep '
    'texts) is replayed through everything ddSMT runs '
    'unguarded in its main process (parser, theory detection, information '
    'collection, ddmin task generation for every mutator and granularity, '
    'the hierarchical producer - whose task list must equal the proposals '
    'of the mutators guarded one by one -, all writers); every situation of the matrix '
    'is replayed through bin/ddsmt and python -m ddsmt; sampled shapes run '
    'end to end against keyword-adversarial commands.',
    'Special identifiers are collected from quoted strings of the sources; '
    'quick: arity <= 1 for every head, arity 2 for a seeded tenth of them; '
    'thorough: arity <= 2 for every head, arity 3 for a seeded twentieth; '
    'one level of nesting.',
    'TLA+ generators (usage matrix, shapes) enumerated by TLC and replayed '
    'into the main-process code paths and the real CLI',
    'Main.tla, GenShapes.tla, GenEdits.tla', 'DESIGN.md section 5, C04')

chk('C06', 'fault_enumeration',
    'OutFile.tla is a POSIX file-system model with the state invariant '
    'OutComplete; TLC shows a rename-based writer satisfies it and truncate-'
    'then-fill violates it. The system calls of real runs (strace -ff) on the '
    'output path are replayed by TLC through the model\'s system-call actions '
    '(TraceOutFile.tla) so that every prefix is a SIGKILL/reader point; an '
    'interrupt is injected at the n-th low-level write of the output renderer '
    'for n across all rewrites of a run; SIGINT/SIGKILL are sent at seeded '
    'times. Afterwards: complete accepted text in the file (the last one '
    'after an interrupt), input unchanged, temporary directory gone, no '
    'process left.',
    'SIGINT is modelled by KeyboardInterrupt at a write call of the renderer; '
    'fsync/power-loss ordering is not modelled; one input/command pair.',
    'TLC-checked file-system model + TLC validation of strace system-call '
    'traces + enumerated interrupt points',
    'OutFile.tla, TraceOutFile.tla', 'DESIGN.md section 5, C06')

chk('C09', 'model_checking',
    'Checker.tla states the documented acceptance rule; TLC enumerates the '
    'product of comparison options and outcomes (all 6 main options x exit x '
    '4x4 stream kinds; the full cross-check side x 8 main-side situations) '
    'with the expected verdict, and every case is replayed into the real '
    'checker: options from a real argv, tmpfiles.init/copy_binaries, '
    'do_golden_runs and check_exprs with real subprocesses of a command whose '
    'behaviour is dictated per file; the argv seen by the command is checked.',
    'One concrete text per stream kind; configurations that stop at the golden '
    'run belong to C10.',
    'TLA+ statement of the rule as exhaustive case generator replayed into the '
    'real checker with real subprocesses',
    'Checker.tla', 'DESIGN.md section 5, C09')

chk('C14', 'model_checking',
    'Options.tla gives the semantics of ordered mutator/group toggles, '
    '--disable-all and theory detection; MC_Options model-checks its algebra '
    'on an abstract registry (all sequences <= 3, all declaration profiles). '
    'With the registry read from the running code, TLC (OptionsTrace.tla) '
    'judges what the real code built for every single option, ordered pairs '
    'and seeded longer sequences x declaration profiles: options parsed from a '
    'real argv, auto_detect_theories, get_passes(), ddmin_passes().',
    'argparse abbreviations are not exercised; a theory is declared through a '
    'declaration whose result sort belongs to it.',
    'TLC-checked option semantics + TLC judgement of recorded pass lists of '
    'the real code',
    'Options.tla, OptionsTrace.tla', 'DESIGN.md section 5, C14')

chk('C03', 'model_checking',
    'Three obligations. (1) Control: Hier.tla / Ddmin.tla satisfy Termination '
    '(TLC liveness under weak fairness, no state constraint) for acyclic '
    'reduction systems; recorded real runs against adversarial commands are '
    'validated by TLC with NoRevisit. (2) The proposal relation: the closure '
    'of the REAL mutators\' proposals around seed inputs is recorded and '
    'emitted as a graph; TLC checks Rewrite.tla (Decreasing: every recorded '
    'proposal strictly lowers a rank = no cycle; Changes: no proposal is a '
    'no-op); a cycle is confirmed end to end by running ddSMT against the '
    'command accepting exactly its members. (3) Every mutator call of the '
    'exploration runs under a watchdog (CPU time). (4) TraceDdmin requires '
    'that a parallel ddmin round restarts right after the adopted subset '
    '(the strictly growing restart index ends the round).',
    'Closures are bounded (inputs per seed) around hand-kept and corpus '
    'seeds: a bounded search for cycles, not a proof of well-foundedness; '
    'time/memory per proposal is measured by the harness, not by TLC.',
    'TLC liveness checking of the strategy specs + TLC check of the recorded '
    'proposal graph of the real mutators + TLC trace validation (NoRevisit)',
    'Hier.tla, Ddmin.tla, Rewrite.tla, TraceHier.tla, TraceDdmin.tla',
    'DESIGN.md section 5, C03')

chk('C10', 'fault_enumeration',
    'Exec.tla models one execution of the command with limits in logical '
    'time and six child behaviours (quick, sleep, spin, allocate, signal, '
    'grandchild holding the pipes; the scripted command also allocates by '
    'shared mappings and ignores SIGTERM); TLC checks NoUnboundedWait (liveness), '
    'TotalTimeBound, KilledIsGone, HangsTimeOut. The faults are enumerated '
    'against the real code with real kernel limits: all placements of <= 3 '
    'fault kinds x strategy x -j 1/2 x explicit or derived limit (x --memout); '
    'observed: every faulty candidate rejected, wall time <= tests x limit + '
    'slack, no command process survives, exit status; the recorded '
    'executions (limit used, timed out, verdict) are judged by TLC '
    '(ExecTrace.tla: TimeoutVerdictOK / DerivedLimitOK).',
    'Kernel behaviour (rlimits, pipes held by grandchildren) is observed, '
    'not modelled beyond the abstract child behaviours; wall-clock bounds '
    'carry a generous slack.',
    'TLC-checked execution model + enumerated faults against real '
    'subprocesses + TLC validation of recorded executions',
    'Exec.tla, ExecTrace.tla', 'DESIGN.md section 5, C10')

chk('C16', 'model_checking',
    'SmtSem.tla states the SMT-LIB typing rules (SortVal, ResSort, SortOf, '
    'term positions). GenTerms.tla makes TLC enumerate every operator '
    'instance x every admissible tuple of argument sorts of a sort universe '
    '(variables, constants in every notation, applications of declared '
    'functions, let, quantifiers, datatypes, one level of nesting) with the '
    'sort of every term position; each case is replayed into '
    'collect_information / get_sort / get_bv_width (pre-order and reverse '
    'order): an answer must be unknown or the sort/width TLC computed; '
    'disagreements and a sample are re-judged by TLC (SemConform.tla). The '
    'same is recorded on the seed scripts of all theories and judged by TLC '
    'at every term position; every proposal of Constants, ReplaceByVariable, '
    'IntroduceFreshVariable (and ReplaceByChild where ddSMT claims a sort) '
    'must keep the sort of the replaced term (TLC, kind samesort). Directed '
    'scripts: select over a store whose base ddSMT cannot type; a let whose '
    'second binding is too deep for recursive inference (judged against the '
    'script with the deep term replaced by a shallow one of the same sort).',
    'SmtSem.tla is the trusted statement of the typing rules (terms it '
    'cannot type are not judged); bounded sort universe and nesting depth; '
    'a bound variable proposed outside its scope is not a sort error.',
    'TLA+ typing rules as exhaustive case generator replayed into the sort '
    'inference + TLC judgement of recorded inferences and proposals',
    'SmtSem.tla, GenTerms.tla, SemConform.tla', 'DESIGN.md section 5, C16')

chk('C17', 'model_checking',
    'SmtEval.tla states the value of terms (Core, Ints, Reals, bit-vectors, '
    'datatypes, let, beta reduction with proper scoping, quantifiers over '
    'finite domains). The real filter/mutations of the 21 mutators whose '
    'documentation states an identity run on instance families of their '
    'patterns (all widths 1-4 and 8, all index values, constants in every '
    'notation and value, nested operands, arguments named like formal '
    'parameters, shadowing and capturing lets) and on every term TLC '
    'generates from GenTerms.tla; TLC (SemConform.tla, kind equiv) judges '
    'every (original, replacement) pair: same sort, same value under every '
    'assignment of the free constants and enclosing binders.',
    'Bit-vectors wider than 4 and Int/Real symbols get sample values; '
    'floating-point and string values are not evaluated (sort synonyms '
    'only); n-ary forms outside the documented binary forms are out of '
    'scope.',
    'TLC evaluation (reference semantics in TLA+) of recorded rewrites of '
    'the real mutators under all assignments',
    'SmtSem.tla, SmtEval.tla, GenTerms.tla, SemConform.tla',
    'DESIGN.md section 5, C17')

NOT_YET = 'check not built yet (work in progress; see DESIGN.md section 10)'
NOT_APPLICABLE = {}

ENGINES = [
    ('Lexer.tla', 'specs/Lexer.tla',
     'TLA+ spec: SMT-LIB reader as character-level state machine (generator)'),
    ('LexerOps.tla', 'specs/LexerOps.tla',
     'TLA+ operators: the reader as a function (LexText, ReadText)'),
    ('SExpr.tla', 'specs/SExpr.tla',
     'TLA+ operators: trees with identities, tokens, traversals, substitution, '
     'reduplication'),
    ('GenForest.tla', 'specs/GenForest.tla',
     'TLA+ spec: generator of forests with sharing'),
    ('GenSubst.tla', 'specs/GenSubst.tla',
     'TLA+ spec: generator of (forest, simplification) pairs'),
    ('Hier.tla', 'specs/Hier.tla',
     'TLA+ spec: strategy_hierarchical.reduce (producer thread, workers, '
     'main loop, abort flag)'),
    ('HierSched.tla', 'specs/HierSched.tla',
     'TLA+ spec: Hier.tla restricted to the behaviours a scheduler can '
     'dictate, with the decisions recorded; instantiated with the reduction '
     'system extracted from the real passes (lib/extract.py, lib/hreplay.py) '
     'and replayed into strategy_hierarchical.reduce'),
    ('Ddmin.tla', 'specs/Ddmin.tla',
     'TLA+ spec: strategy_ddmin (_check_par/_check_seq, TaskGenerator)'),
    ('DdminEmit.tla', 'specs/DdminEmit.tla',
     'TLA+ spec: Ddmin.tla in sequential mode as a generator of complete '
     'behaviours, replayed into strategy_ddmin with one job (lib/dreplay.py)'),
    ('HierBad.tla', 'specs/HierBad.tla',
     'TLA+ spec: faulty variants of Hier.tla that its properties must refute'),
    ('DdminBad.tla', 'specs/DdminBad.tla',
     'TLA+ spec: faulty variants of Ddmin.tla that its properties must refute'),
    ('TraceHier.tla', 'specs/TraceHier.tla',
     'TLA+ trace spec reusing Hier.tla action bodies'),
    ('TraceDdmin.tla', 'specs/TraceDdmin.tla',
     'TLA+ trace spec reusing Ddmin.tla action bodies'),
    ('Session.tla', 'specs/Session.tla',
     'TLA+ spec: composition of the reduction phases in cli.ddsmt_main '
     '(hand-over, report, file at exit)'),
    ('TraceSession.tla', 'specs/TraceSession.tla',
     'TLA+ trace spec reusing Session.tla actions'),
    ('DdminOuter.tla', 'specs/DdminOuter.tla',
     'TLA+ spec: strategy_ddmin.reduce above one mutator (stages, repetition '
     'of top-level passes, quiet sweep)'),
    ('TraceDdminOuter.tla', 'specs/TraceDdminOuter.tla',
     'TLA+ trace spec reusing DdminOuter.tla actions'),
    ('Main.tla', 'specs/Main.tla', 'TLA+ spec: phases and exit status'),
    ('GenShapes.tla', 'specs/GenShapes.tla',
     'TLA+ spec: generator of ill-formed s-expression shapes'),
    ('OutFile.tla', 'specs/OutFile.tla', 'TLA+ spec: POSIX file model'),
    ('TraceOutFile.tla', 'specs/TraceOutFile.tla',
     'TLA+ trace spec over strace system calls'),
    ('Checker.tla', 'specs/Checker.tla', 'TLA+ spec: acceptance rule'),
    ('Options.tla', 'specs/Options.tla', 'TLA+ spec: mutator options'),
    ('OptionsTrace.tla', 'specs/OptionsTrace.tla',
     'TLA+ case validation for options'),
    ('GenEdits.tla', 'specs/GenEdits.tla',
     'TLA+ spec: generator of edited (ill-formed) commands'),
    ('IdCounter.tla', 'specs/IdCounter.tla',
     'TLA+ spec: shared node-id counter across processes'),
    ('Rewrite.tla', 'specs/Rewrite.tla',
     'TLA+ spec: proposal relation as transition system'),
    ('Conform.tla', 'specs/Conform.tla',
     'TLA+ trace/case validation of recorded implementation behaviour'),
    ('Exec.tla', 'specs/Exec.tla',
     'TLA+ spec: one execution of the command under limits'),
    ('ExecTrace.tla', 'specs/ExecTrace.tla',
     'TLA+ validation of recorded executions'),
    ('SmtSem.tla', 'specs/SmtSem.tla',
     'TLA+ operators: SMT-LIB sorts and typing rules'),
    ('SmtEval.tla', 'specs/SmtEval.tla',
     'TLA+ operators: values of SMT-LIB terms'),
    ('GenTerms.tla', 'specs/GenTerms.tla',
     'TLA+ spec: generator of well-sorted terms with their typing'),
    ('SemConform.tla', 'specs/SemConform.tla',
     'TLA+ validation of recorded sort inferences and rewrites'),
]


def main():
    checks = []
    for pid in ALL:
        if pid not in CHECKS:
            continue
        c = CHECKS[pid]
        checks.append({
            'property_id': pid,
            'quick_cmd': f'./check {pid} --tier quick',
            'thorough_cmd': f'./check {pid} --tier thorough',
            'evidence_file': f'evidence/{pid}.json',
            'replay_cmd_template': f'./check {pid} --replay {{path}}',
            'engine': c['engine'],
            'level_claimed': {
                'category': c['level'],
                'text': c['text'],
                'design_ref': c['ref'],
            },
            'level_note': c['note'],
            'technique': c['technique'],
        })
    na = []
    for pid in ALL:
        if pid in CHECKS:
            continue
        na.append({
            'property_id': pid,
            'reason': NOT_APPLICABLE.get(pid, NOT_YET)
        })
    engines = []
    for name, path, kind in ENGINES:
        serves = [p for p, c in CHECKS.items() if name in c['engine']]
        engines.append({
            'name': name,
            'path': path,
            'serves_properties': serves,
            'kind_free_text': kind
        })
    m = {
        'version': 1,
        'setup_cmd': './setup.sh',
        'hooks': {
            'guard': 'DDSMT_VERIF',
            'enable': 'no source hooks are needed: events are taken by a '
            'launcher in /verif that imports ddsmt from $DDSMT_REPO (default '
            '/repo) and wraps module-level functions; the guard name is '
            'reserved',
            'baseline_off_cmd': 'cd /repo && /venv/bin/python -m pytest -ra -q '
            '-p no:cacheprovider --timeout=900 '
            '--continue-on-collection-errors',
            'source_commits': [],
            'add_only': True,
        },
        'engines': engines,
        'checks': checks,
        'not_applicable': na,
        'notes': 'Every check is ./check <id>; it imports ddSMT from the '
        'current working tree of /repo at run time. Scratch space is under '
        '/var/tmp and removed at exit. known_findings.json lists recorded '
        'defects and repairs.',
    }
    with open(os.path.join(VERIF, 'MANIFEST.json'), 'w') as f:
        json.dump(m, f, indent=1)
    print('checks:', [c['property_id'] for c in checks])


if __name__ == '__main__':
    main()
