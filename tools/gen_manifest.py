#!/venv/bin/python
"""Regenerates /verif/MANIFEST.json from the table below (single source)."""
import json
import os

VERIF = os.path.dirname(os.path.dirname(os.path.abspath(__file__)))

ALL = [f'C{i:02d}' for i in range(1, 19)]

# property -> dict(level, text, note, technique, engine, design_ref)
CHECKS = {}


def chk(pid, level, text, note, technique, engine, ref):
    CHECKS[pid] = dict(level=level, text=text, note=note, technique=technique,
                       engine=engine, ref=ref)


chk('C08', 'model_checking',
    'TLC enumerates every in-scope SMT-LIB text up to a length bound over a '
    'class alphabet with the reader specified as a character-level state '
    'machine (Lexer.tla, written from the standard), checks the model\'s own '
    'sanity invariants, and every final state (text, expected tokens, expected '
    'forest) is replayed into nodeio.parse_smtlib: exhaustive up to the bound, '
    'which is where lexer faults live (adjacent lexeme classes).',
    'Class representatives stand for their classes; texts longer than the '
    'bound are not enumerated; the TLA+ reader is the trusted statement of the '
    'standard (cross-checked against an independent Python reader in the same '
    'run).',
    'TLA+ reader spec as exhaustive case generator (TLC state dump) replayed '
    'into the implementation',
    'Lexer.tla', 'DESIGN.md section 5, C08')

NOT_YET = 'check not built yet (work in progress; see DESIGN.md section 10)'
NOT_APPLICABLE = {}

ENGINES = [
    ('Lexer.tla', 'specs/Lexer.tla', 'TLA+ spec (TLC generator + operators)'),
]


def main():
    checks = []
    for pid in ALL:
        if pid not in CHECKS:
            continue
        c = CHECKS[pid]
        checks.append({
            'property_id': pid,
            'quick_cmd': f'./check {pid} --tier quick',
            'thorough_cmd': f'./check {pid} --tier thorough',
            'evidence_file': f'evidence/{pid}.json',
            'replay_cmd_template': f'./check {pid} --replay {{path}}',
            'engine': c['engine'],
            'level_claimed': {
                'category': c['level'],
                'text': c['text'],
                'design_ref': c['ref'],
            },
            'level_note': c['note'],
            'technique': c['technique'],
        })
    na = []
    for pid in ALL:
        if pid in CHECKS:
            continue
        na.append({
            'property_id': pid,
            'reason': NOT_APPLICABLE.get(pid, NOT_YET)
        })
    engines = []
    for name, path, kind in ENGINES:
        serves = [p for p, c in CHECKS.items() if name in c['engine']]
        engines.append({
            'name': name,
            'path': path,
            'serves_properties': serves,
            'kind_free_text': kind
        })
    m = {
        'version': 1,
        'setup_cmd': './setup.sh',
        'hooks': {
            'guard': 'DDSMT_VERIF',
            'enable': 'no source hooks are needed: events are taken by a '
            'launcher in /verif that imports ddsmt from $DDSMT_REPO (default '
            '/repo) and wraps module-level functions; the guard name is '
            'reserved',
            'baseline_off_cmd': 'cd /repo && /venv/bin/python -m pytest -ra -q '
            '-p no:cacheprovider --timeout=900 '
            '--continue-on-collection-errors',
            'source_commits': [],
            'add_only': True,
        },
        'engines': engines,
        'checks': checks,
        'not_applicable': na,
        'notes': 'Every check is ./check <id>; it imports ddSMT from the '
        'current working tree of /repo at run time. Scratch space is under '
        '/var/tmp and removed at exit. known_findings.json lists recorded '
        'defects and repairs.',
    }
    with open(os.path.join(VERIF, 'MANIFEST.json'), 'w') as f:
        json.dump(m, f, indent=1)
    print('checks:', [c['property_id'] for c in checks])


if __name__ == '__main__':
    main()
