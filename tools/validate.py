#!/usr/bin/env python3-vt
"""Validate MANIFEST.json and evidence/*.json against the given schemas."""
import glob, json, sys
import jsonschema
ok = True
m = json.load(open('/verif/MANIFEST.json'))
jsonschema.validate(m, json.load(open('/root/.vp/MANIFEST.schema.json')))
es = json.load(open('/root/.vp/EVIDENCE.schema.json'))
for c in m['checks']:
    p = '/verif/' + c['evidence_file']
    try:
        e = json.load(open(p))
        jsonschema.validate(e, es)
        assert e['level'] == c['level_claimed']['category'], 'level mismatch'
        print('ok', p, e['tier'], e['wall_s'], 's viol=', e.get('violations'))
    except Exception as ex:
        ok = False
        print('BAD', p, str(ex)[:300])
ids = {c['property_id'] for c in m['checks']} | {n['property_id'] for n in m.get('not_applicable', [])}
print('covered ids:', len(ids))
sys.exit(0 if ok else 1)
