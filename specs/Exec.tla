-------------------------------- MODULE Exec --------------------------------
(***************************************************************************)
(* One execution of the command under test with limits (C10), in logical   *)
(* time (ticks).  checker.execute: spawn, apply limits, wait with a        *)
(* deadline, on expiry kill and return a "timed out" record.               *)
(*                                                                         *)
(* Child behaviours (chosen nondeterministically per run):                 *)
(*   "quick"   exits with some code after a few ticks                      *)
(*   "sleep"   never exits, uses no CPU                                    *)
(*   "spin"    never exits, uses one CPU tick per tick                     *)
(*   "alloc"   allocates until the address-space limit makes it fail       *)
(*   "signal"  dies from a signal                                          *)
(*   "grand"   exits at once but a grandchild keeps the output pipes open  *)
(* The waiter:  Wait is only ever enabled together with a deadline, so the *)
(* checker cannot block forever (NoUnboundedWait = termination of every    *)
(* run, checked as liveness without any state constraint).                 *)
(* A timed-out run yields the record [exit |-> "none", out |-> "none"],    *)
(* which matches the golden record only if the golden run timed out too.   *)
(***************************************************************************)
EXTENDS Naturals, Sequences, TLC

CONSTANTS Limit,      \* wall-clock limit in ticks
          CpuLimit,   \* RLIMIT_CPU in ticks (ceil of the wall limit: >= Limit)
          MemLimit    \* allocation steps the address-space limit allows

Behaviours == {"quick", "sleep", "spin", "alloc", "signal", "grand"}

VARIABLES beh, phase, clock, cpu, mem, alive, pipes, result
vars == <<beh, phase, clock, cpu, mem, alive, pipes, result>>

Init == /\ beh \in Behaviours /\ phase = "spawned" /\ clock = 0 /\ cpu = 0
        /\ mem = 0 /\ alive = TRUE /\ pipes = TRUE /\ result = "pending"

(* prlimit on the child right after Popen *)
ApplyLimits == /\ phase = "spawned" /\ phase' = "waiting"
               /\ UNCHANGED <<beh, clock, cpu, mem, alive, pipes, result>>

(* one tick of the world while the checker waits in communicate(timeout) *)
Tick ==
  /\ phase = "waiting" /\ clock < Limit
  /\ clock' = clock + 1
  /\ CASE beh = "quick"  -> /\ alive' = (clock + 1 < 2) /\ pipes' = (clock + 1 < 2)
                            /\ UNCHANGED <<cpu, mem>>
       [] beh = "sleep"  -> UNCHANGED <<alive, pipes, cpu, mem>>
       [] beh = "spin"   -> /\ cpu' = cpu + 1
                            /\ alive' = (cpu + 1 < CpuLimit)
                            /\ pipes' = (cpu + 1 < CpuLimit)
                            /\ UNCHANGED mem
       [] beh = "alloc"  -> /\ mem' = mem + 1
                            /\ alive' = (mem + 1 < MemLimit)
                            /\ pipes' = (mem + 1 < MemLimit)
                            /\ UNCHANGED cpu
       [] beh = "signal" -> /\ alive' = FALSE /\ pipes' = FALSE
                            /\ UNCHANGED <<cpu, mem>>
       [] beh = "grand"  -> /\ alive' = FALSE /\ UNCHANGED <<pipes, cpu, mem>>
  /\ UNCHANGED <<beh, phase, result>>

(* communicate returns when both pipes are closed and the child is gone *)
Return == /\ phase = "waiting" /\ ~alive /\ ~pipes
          /\ phase' = "returned"
          /\ result' = CASE beh = "quick"  -> "exit"
                         [] beh = "signal" -> "signalled"
                         [] beh = "alloc"  -> "exit-failure"
                         [] beh = "spin"   -> "signalled"
                         [] OTHER          -> "exit"
          /\ UNCHANGED <<beh, clock, cpu, mem, alive, pipes>>

(* TimeoutExpired: kill, return the timed-out record WITHOUT waiting again *)
Expire == /\ phase = "waiting" /\ clock >= Limit /\ (alive \/ pipes)
          /\ alive' = FALSE
          /\ phase' = "returned" /\ result' = "timeout"
          /\ UNCHANGED <<beh, clock, cpu, mem, pipes>>

Next == ApplyLimits \/ Tick \/ Return \/ Expire
Spec == Init /\ [][Next]_vars /\ WF_vars(Next)

TypeOK == clock <= Limit /\ phase \in {"spawned", "waiting", "returned"}
NoUnboundedWait == <>(phase = "returned")
TotalTimeBound == phase = "returned" => clock <= Limit
KilledIsGone == (phase = "returned") => ~alive
HangsTimeOut == (phase = "returned" /\ beh \in {"sleep", "grand"}) => result = "timeout"
QuickIsNotTimeout == (phase = "returned" /\ beh = "quick") => result = "exit"

(* --- the acceptance consequence, as operators used on recorded runs ----- *)
(* a timed-out record matches golden only if golden timed out as well       *)
TimeoutVerdictOK(goldenTimedOut, runTimedOut, accepted) ==
    (runTimedOut /\ ~goldenTimedOut) => ~accepted
(* the derived limit: 1.5 x (golden run time + 1 s), in milliseconds        *)
DerivedLimitOK(goldenMs, limitMs) ==
    LET want == (3 * (goldenMs + 1000)) \div 2
    IN limitMs + 20 >= want /\ limitMs <= want + 20
=============================================================================
