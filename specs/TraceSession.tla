---------------------------- MODULE TraceSession ----------------------------
(***************************************************************************)
(* Code -> spec: is the recorded session of one ddSMT run (entry and exit  *)
(* of strategy_ddmin.reduce / strategy_hierarchical.reduce, every write of *)
(* the output file, the report and the file at exit) a behaviour of        *)
(* Session.tla?  The actions are Session's; inputs are numbered token      *)
(* sequences.  Total verdict: ACCEPT n / REJECT position event clause.     *)
(***************************************************************************)
EXTENDS Session, Json, IOUtils, TLC

Trace == JsonDeserialize(IOEnv.TRACE)
Ev == Trace.events
TStrategy == Trace.strategy
TInputs == 1..Trace.ninputs
TFaulty == "none"

VARIABLE l
tvars == <<svars, l>>

E == Ev[l]
PhaseOf(s) == IF s = "hier" THEN "hier" ELSE "ddmin"

WhyBegin ==
  LET p == PhaseOf(E.strat) IN
  IF ~(\/ phase = "start" /\ p = Phases[1]
       \/ phase = "between" /\ Len(Phases) = 2 /\ p = Phases[2])
  THEN "phase-out-of-order"
  ELSE IF E.base # ret
  THEN "phase-starts-from-an-input-other-than-the-one-returned-before"
  ELSE "ok"

(* writing the current input again (ddmin re-applying a subset whose nodes *)
(* are gone) is stuttering                                                 *)
WhyWrite ==
  IF phase \notin {"ddmin", "hier"} THEN "write-outside-a-phase"
  ELSE IF E.content = cur THEN "ok"
  ELSE IF E.content \in visited THEN "written-input-was-current-before"
  ELSE "ok"

WhyEnd ==
  IF phase # PhaseOf(E.strat) THEN "end-out-of-order"
  ELSE IF E.result # cur
  THEN "phase-returns-an-input-other-than-its-last-adoption"
  ELSE "ok"

WhyExit ==
  IF phase # "finished" THEN "exit-before-the-phases-finished"
  ELSE IF ~E.hidden /\ E.unable # (ret = orig) THEN "report-contradicts-the-result"
  ELSE IF E.file # file THEN "file-at-exit-is-not-the-last-written-input"
  ELSE "ok"

Why == CASE E.e = "begin" -> WhyBegin
         [] E.e = "write" -> WhyWrite
         [] E.e = "end"   -> WhyEnd
         [] E.e = "exit"  -> WhyExit
         [] OTHER         -> "unknown-event"

Live == l <= Len(Ev)
IsEvent(e) == Live /\ E.e = e /\ Why = "ok" /\ l' = l + 1

TBegin == IsEvent("begin") /\ Begin(PhaseOf(E.strat))
TWrite == /\ IsEvent("write")
          /\ IF E.content = cur
             THEN /\ file' = cur
                  /\ UNCHANGED <<phase, orig, cur, ret, visited, report>>
             ELSE Adopt(E.content)
TEnd   == IsEvent("end") /\ End
TExit  == IsEvent("exit") /\ Report

TReject == /\ Live /\ Why # "ok"
           /\ PrintT(<<"REJECT", l, E.e, Why>>)
           /\ l' = Len(Ev) + 2
           /\ UNCHANGED svars

TAccept == /\ l = Len(Ev) + 1
           /\ PrintT(<<"ACCEPT", Len(Ev)>>)
           /\ l' = Len(Ev) + 3
           /\ UNCHANGED svars

TInit == /\ phase = "start" /\ orig = Trace.orig /\ cur = Trace.orig
         /\ ret = Trace.orig /\ file = 0 /\ visited = {Trace.orig}
         /\ report = "none" /\ l = 1

TNext == TBegin \/ TWrite \/ TEnd \/ TExit \/ TReject \/ TAccept
TSpec == TInit /\ [][TNext]_tvars

(* the invariants of the session model hold along the recorded session *)
THandOver == HandOver
TFileIsCurrent == FileIsCurrent
TReportTruthful == ReportTruthful
=============================================================================
