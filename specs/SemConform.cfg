SPECIFICATION Spec
INVARIANT Judge
