------------------------------ MODULE GenShapes -----------------------------
(***************************************************************************)
(* Generator of s-expression shapes for C04: every identifier ddSMT treats *)
(* specially (module ShapeHeads, generated from the sources of the tree    *)
(* under test) as head of a list with 0..MaxArity children, each child one *)
(* of: symbol, numeral, #b / #x constant, string literal, (), (sym), (()), *)
(* ((sym)), ((sym Int) ()), or a nested special form.  Delta debugging drives inputs through exactly     *)
(* such ill-formed shapes ((forall), (bvand), (declare-const x)); every    *)
(* final state is replayed through everything ddSMT runs unguarded in its  *)
(* main process.                                                           *)
(***************************************************************************)
EXTENDS Naturals, Sequences, FiniteSets, ShapeHeads

CONSTANT MaxArity

Simple == { <<"sym">>, <<"num">>, <<"bvb">>, <<"bvx">>, <<"str">>,
            <<"nil">>, <<"lsym">>, <<"lnil">>, <<"llsym">>, <<"lmix">> }
\* lnil (()), llsym ((x)), lmix ((x Int) ()): binder / parameter lists with
\* ill-formed entries
Nested == { <<"nest", h>> : h \in NestHeads }
Kids == Simple \cup Nested

VARIABLES head, kids, done
vars == <<head, kids, done>>

Init == head \in Heads /\ kids = <<>> /\ done = FALSE
AddKid(k) == /\ ~done /\ Len(kids) < MaxArity
             /\ kids' = Append(kids, k) /\ UNCHANGED <<head, done>>
Finish == ~done /\ done' = TRUE /\ UNCHANGED <<head, kids>>
Next == Finish \/ \E k \in Kids : AddKid(k)
Spec == Init /\ [][Next]_vars
TypeOK == Len(kids) <= MaxArity /\ head \in Heads
=============================================================================
