SPECIFICATION Spec
CONSTANTS
  Family = "main"
INVARIANT UncheckedAcceptsAll
INVARIANT ExitMismatchRejects
INVARIANT IdenticalRunAccepted
INVARIANT IgnoreOutputOnlyExit
