----------------------------- MODULE LexerOps ------------------------------
(***************************************************************************)
(* The SMT-LIB 2.6 reader as a character-level state machine (C08; the     *)
(* reference for token sequences used by C01, C07, C15).                   *)
(*                                                                         *)
(* Written from the standard (section 3.1 "Lexicon"), not from             *)
(* nodeio.parse_smtlib:                                                    *)
(*   - white space is TAB, LF, CR and space;                               *)
(*   - a comment runs from ';' (outside a string literal / quoted symbol)  *)
(*     to the next line-breaking character (LF or CR);                     *)
(*   - a string literal is delimited by '"', and '""' inside it is an      *)
(*     escaped quote;                                                      *)
(*   - a quoted symbol runs from '|' to the next '|' and may span lines;   *)
(*   - every other lexeme (numeral, decimal, #x.., #b.., simple symbol,    *)
(*     keyword) is a maximal run of non-delimiter characters.              *)
(* ddSMT's convention, fixed by the property: a comment is a separate leaf *)
(* placed where it occurs (in the enclosing list, or at top level).        *)
(*                                                                         *)
(* Characters are class representatives (strings naming the class), a text *)
(* is a sequence of them.  The module is used                              *)
(*   (a) as a generator: TLC enumerates every in-scope text of length      *)
(*       <= MaxLen over Chars; the states with done = TRUE carry the text  *)
(*       and the expected token sequence and forest, and are replayed into *)
(*       nodeio.parse_smtlib;                                              *)
(*   (b) as operators Lex(text) / Read(text) for other modules.            *)
(*                                                                         *)
(* Scope (the property speaks of *separated* lexemes): two atom-like       *)
(* lexemes (atoms, strings, quoted symbols) are never adjacent; they are   *)
(* separated by white space, a parenthesis or a comment.  The generator    *)
(* enforces this in the enabling conditions, nothing is filtered later.    *)
(***************************************************************************)
EXTENDS SExpr

AllChars == {"LP", "RP", "SP", "TAB", "LF", "CR", "DQ", "BAR", "SEMI",
             "A", "D", "HASH", "COLON", "MINUS", "BS"}
\* "BS" is the backslash: an ordinary character of string literals and
\* comments (SMT-LIB 2.6 has no escape but the doubled quote); it is not a
\* symbol character and may not occur in quoted symbols.

WS        == {"SP", "TAB", "LF", "CR"}
LineBreak == {"LF", "CR"}
AtomChars == {"A", "D", "HASH", "COLON", "MINUS"}
Delims    == WS \cup {"LP", "RP", "SEMI"}   \* what may follow a lexeme directly

Leaf(d)  == LeafN(0, d)     \* the reader's nodes carry no identity here
List(k)  == ListN(0, k)

-----------------------------------------------------------------------------
(* Structure building *)

Push(st)      == Append(st, <<>>)
AddTo(st, n)  == [st EXCEPT ![Len(st)] = Append(@, n)]
Pop(st)       == LET closed == List(st[Len(st)])
                     rest   == SubSeq(st, 1, Len(st) - 1)
                 IN  AddTo(rest, closed)

(* Finish the lexeme in cur: one token, one leaf in the innermost open list *)
Emit(tk, st, c) == [tk |-> Append(tk, c), st |-> AddTo(st, Leaf(c))]

-----------------------------------------------------------------------------
(* Atom scope automaton: which single lexeme is a run of atom characters.   *)
(*   sym  : A (A|D|MINUS)*            simple symbol                         *)
(*   num  : D+                         numeral                              *)
(*   kw   : COLON A (A|D|MINUS)*       keyword                              *)
(*   hash : HASH A D+                  #b0.. / #x0.. literal                *)
(*   neg  : MINUS                      the symbol "-" , then like sym       *)
AtomStart(c) == CASE c = "A"     -> "sym"
                  [] c = "D"     -> "num"
                  [] c = "COLON" -> "kw0"
                  [] c = "HASH"  -> "hash0"
                  [] c = "MINUS" -> "sym"
                  [] OTHER       -> "none"

AtomNext(kd, c) ==
    CASE kd = "sym"   /\ c \in {"A", "D", "MINUS"} -> "sym"
      [] kd = "num"   /\ c = "D"                   -> "num"
      [] kd = "kw0"   /\ c = "A"                   -> "kw"
      [] kd = "kw"    /\ c \in {"A", "D", "MINUS"} -> "kw"
      [] kd = "hash0" /\ c = "A"                   -> "hash1"
      [] kd = "hash1" /\ c = "D"                   -> "hash"
      [] kd = "hash"  /\ c = "D"                   -> "hash"
      [] OTHER                                     -> "none"

AtomComplete(kd) == kd \in {"sym", "num", "kw", "hash"}

-----------------------------------------------------------------------------
(* One step of the reader at the top of a lexeme boundary (modes top/aft     *)
(* and after a lexeme has just been finished).  Returns the new              *)
(* [mode, kind, cur, toks, stack]; character c is a delimiter or starts a    *)
(* new lexeme.                                                               *)
AtBoundary(c, tk, st) ==
    CASE c \in WS    -> [mode |-> "top", kind |-> "none", cur |-> <<>>,
                         toks |-> tk, stack |-> st]
      [] c = "LP"    -> [mode |-> "top", kind |-> "none", cur |-> <<>>,
                         toks |-> Append(tk, LP), stack |-> Push(st)]
      [] c = "RP"    -> [mode |-> "top", kind |-> "none", cur |-> <<>>,
                         toks |-> Append(tk, RP), stack |-> Pop(st)]
      [] c = "SEMI"  -> [mode |-> "com", kind |-> "none", cur |-> <<c>>,
                         toks |-> tk, stack |-> st]
      [] c = "DQ"    -> [mode |-> "str", kind |-> "none", cur |-> <<c>>,
                         toks |-> tk, stack |-> st]
      [] c = "BAR"   -> [mode |-> "bar", kind |-> "none", cur |-> <<c>>,
                         toks |-> tk, stack |-> st]
      [] OTHER       -> [mode |-> "atom", kind |-> AtomStart(c), cur |-> <<c>>,
                         toks |-> tk, stack |-> st]

(* The reader as a function on [mode, kind, cur, toks, stack] records, so   *)
(* that other modules can lex real text: any character that is not one of   *)
(* the nine delimiter/quote classes is an atom character.                   *)
Special == WS \cup {"LP", "RP", "SEMI", "DQ", "BAR"}

StepF(s, c) ==
      CASE s.mode \in {"top", "aft"} -> AtBoundary(c, s.toks, s.stack)
        [] s.mode = "atom" ->
             IF c \notin Special
             THEN [mode |-> "atom", kind |-> AtomNext(s.kind, c),
                   cur |-> Append(s.cur, c), toks |-> s.toks, stack |-> s.stack]
             ELSE LET e == Emit(s.toks, s.stack, s.cur)
                  IN AtBoundary(c, e.tk, e.st)
        [] s.mode = "str" ->
             [mode |-> IF c = "DQ" THEN "strq" ELSE "str", kind |-> "none",
              cur |-> Append(s.cur, c), toks |-> s.toks, stack |-> s.stack]
        [] s.mode = "strq" ->
             IF c = "DQ"   \* doubled quote: still inside the literal
             THEN [mode |-> "str", kind |-> "none", cur |-> Append(s.cur, c),
                   toks |-> s.toks, stack |-> s.stack]
             ELSE LET e == Emit(s.toks, s.stack, s.cur)
                  IN AtBoundary(c, e.tk, e.st)
        [] s.mode = "bar" ->
             IF c = "BAR"
             THEN LET e == Emit(s.toks, s.stack, Append(s.cur, c))
                  IN [mode |-> "aft", kind |-> "none", cur |-> <<>>,
                      toks |-> e.tk, stack |-> e.st]
             ELSE [mode |-> "bar", kind |-> "none", cur |-> Append(s.cur, c),
                   toks |-> s.toks, stack |-> s.stack]
        [] s.mode = "com" ->
             IF c \in LineBreak
             THEN LET e == Emit(s.toks, s.stack, s.cur)
                  IN [mode |-> "top", kind |-> "none", cur |-> <<>>,
                      toks |-> e.tk, stack |-> e.st]
             ELSE [mode |-> "com", kind |-> "none", cur |-> Append(s.cur, c),
                   toks |-> s.toks, stack |-> s.stack]

FinishF(s) ==
    LET e == IF s.mode \in {"atom", "strq", "com"}
             THEN Emit(s.toks, s.stack, s.cur)
             ELSE [tk |-> s.toks, st |-> s.stack]
    IN [mode |-> "top", kind |-> "none", cur |-> <<>>,
        toks |-> e.tk, stack |-> e.st]

State0 == [mode |-> "top", kind |-> "none", cur |-> <<>>, toks |-> <<>>,
           stack |-> << <<>> >>]

RECURSIVE RunF(_, _, _)
RunF(s, txt, i) == IF i > Len(txt) THEN s ELSE RunF(StepF(s, txt[i]), txt, i + 1)

(* A text is readable when parentheses never close below depth 0 (checked   *)
(* by the caller) and it ends balanced and outside a string/quoted symbol.  *)
LexText(txt)  == FinishF(RunF(State0, txt, 1)).toks
ReadText(txt) == FinishF(RunF(State0, txt, 1)).stack[1]
TextComplete(txt) == LET s == RunF(State0, txt, 1)
                     IN Len(s.stack) = 1 /\ s.mode \notin {"str", "bar"}

=============================================================================
