-------------------------------- MODULE Main --------------------------------
(***************************************************************************)
(* Phases of one ddSMT run and its exit status (C04; C10 last clause).     *)
(*                                                                         *)
(*   argv -> check_options -> tmp -> parse -> detect -> copy -> golden     *)
(*        -> reduce -> report                                              *)
(* A run ends in exactly one of                                            *)
(*   "completed"    minimisation ran to completion          status 0       *)
(*   "usage"        a usage error, one-line diagnostic      status 1       *)
(*   "nomatch"      a configured match string is absent from the golden    *)
(*                  output, before any minimisation         status 1       *)
(*   "interrupted"  SIGINT, one-line message                status 1       *)
(*   "noexec"       the command cannot be executed at all,  status 1       *)
(*                  one-line diagnostic at the golden run                  *)
(* An internal error (uncaught traceback) is NOT a state of the            *)
(* specification: a run showing one is rejected.                           *)
(* The module is a generator: TLC enumerates every situation of the usage  *)
(* matrix (which fault, in which phase) with the expected outcome; each is *)
(* replayed through both entry points (bin/ddsmt, python -m ddsmt).        *)
(***************************************************************************)
EXTENDS Integers, Sequences, TLC

Phases == <<"argv", "options", "tmp", "parse", "detect", "copy", "golden",
            "reduce", "report">>

(* faults and the phase in which they surface *)
Faults == {"none", "input-missing", "input-is-directory", "command-missing",
           "command-not-a-file", "command-not-executable",
           "match-out-absent", "match-err-absent", "interrupt",
           \* both match strings configured, one of them absent
           "match-both-out-absent", "match-both-err-absent",
           \* the golden run itself exceeds an explicit time limit: it has
           \* no output, so a configured match string is absent from it
           "golden-timeout", "golden-timeout-match-out",
           "golden-timeout-match-err",
           \* some candidates make the command print bytes that are not text:
           \* the failing checks cost only their candidates
           "undecodable-output",
           \* the command prints bytes that are not text on EVERY input, the
           \* golden run included: a command like any other
           "golden-output-not-text",
           \* further usage errors: a job count below one, a cross-check
           \* command that does not exist / is not executable
           "jobs-zero", "jobs-negative", "cross-check-missing",
           "cross-check-not-executable",
           \* the command is an executable file the system cannot run (no
           \* interpreter line): it surfaces at the first execution
           "command-exec-format", "cross-check-exec-format"}

FaultPhase(f) ==
  CASE f \in {"input-missing", "input-is-directory", "command-missing",
              "command-not-a-file", "command-not-executable",
              "jobs-zero", "jobs-negative", "cross-check-missing",
              "cross-check-not-executable"} -> "options"
    [] f \in {"match-out-absent", "match-err-absent",
              "match-both-out-absent", "match-both-err-absent",
              "golden-timeout-match-out", "golden-timeout-match-err",
              "command-exec-format", "cross-check-exec-format"} -> "golden"
    [] f = "interrupt" -> "reduce"
    [] OTHER -> "report"

Outcome(f) ==
  CASE f \in {"none", "golden-timeout", "undecodable-output",
              "golden-output-not-text"} -> "completed"
    [] f \in {"command-exec-format", "cross-check-exec-format"} -> "noexec"
    [] f \in {"match-out-absent", "match-err-absent",
              "match-both-out-absent", "match-both-err-absent",
              "golden-timeout-match-out", "golden-timeout-match-err"} -> "nomatch"
    [] f = "interrupt" -> "interrupted"
    [] OTHER -> "usage"

Status(o) == IF o = "completed" THEN 0 ELSE 1

(* general options that must not change the outcome of a run (each alone;   *)
(* the mutator options are C14's, the comparison options C09's)             *)
Flags == {"none", "-v", "-v -v", "-q", "--pretty-print", "--wrap-lines",
          "--unchecked", "--check-loops", "--profile", "--dump-diffs",
          "--replace-by-variable-mode dec", "--memout 2000", "-j 2",
          "--timeout 20", "--dump-config", "--parser-test"}

VARIABLES phase, fault, outcome, status, done, entry, strategy, flag
vars == <<phase, fault, outcome, status, done, entry, strategy, flag>>

Idx(p) == CHOOSE i \in 1..Len(Phases) : Phases[i] = p

Init == /\ phase = "argv" /\ fault \in Faults /\ outcome = "running"
        /\ status = -1 /\ done = FALSE
        /\ entry \in {"bin", "module"}
        /\ strategy \in {"ddmin", "hierarchical", "hybrid"}
        /\ flag \in (IF fault = "none" /\ strategy = "hybrid" THEN Flags
                     ELSE IF fault = "undecodable-output" THEN {"none", "-v"}
                     ELSE {"none"})

Advance == /\ ~done /\ phase # "report" /\ phase # FaultPhase(fault)
           /\ phase' = Phases[Idx(phase) + 1]
           /\ UNCHANGED <<fault, outcome, status, done, entry, strategy, flag>>

Fail == /\ ~done /\ Outcome(fault) # "completed" /\ phase = FaultPhase(fault)
        /\ outcome' = Outcome(fault) /\ status' = Status(Outcome(fault))
        /\ done' = TRUE
        /\ UNCHANGED <<phase, fault, entry, strategy, flag>>

Report == /\ ~done /\ Outcome(fault) = "completed" /\ phase = "report"
          /\ outcome' = "completed" /\ status' = 0 /\ done' = TRUE
          /\ UNCHANGED <<phase, fault, entry, strategy, flag>>

Next == Advance \/ Fail \/ Report
Spec == Init /\ [][Next]_vars

StatusZeroIffCompleted == done => (status = 0 <=> phase = "report")
NoMinimisationAfterNoMatch ==
  (done /\ outcome = "nomatch") => Idx(phase) < Idx("reduce")
UsageBeforeAnyRun == (done /\ outcome = "usage") => Idx(phase) < Idx("golden")
NoExecBeforeMinimisation ==
  (done /\ outcome = "noexec") => Idx(phase) < Idx("reduce")
=============================================================================
