---------------------------- MODULE OptionsTrace ----------------------------
(***************************************************************************)
(* Code -> spec for C14: the pass lists ddSMT really built for an option   *)
(* sequence and an input (recorded by the harness: classes of the mutator  *)
(* instances returned by get_passes() / ddmin_passes() after               *)
(* auto_detect_theories) are judged against Options.tla with the registry  *)
(* read from the running code.  One state per case; a failing case prints  *)
(* <<"FAIL", cid, clause>>.                                                *)
(***************************************************************************)
EXTENDS Options, Json, IOUtils, TLC

Data == JsonDeserialize(IOEnv.CASES)
Reg == Data.reg
Cases == Data.cases
ToSet(s) == {s[i] : i \in 1..Len(s)}

VARIABLE i

Verdict(c) ==
  LET en == EnabledSet(Reg, c.seq, ToSet(c.decl))
  IN IF ~(ToSet(c.hier_all) \subseteq en) THEN "hierarchical-uses-a-disabled-mutator"
     ELSE IF ToSet(c.hier_last) # en THEN "last-hierarchical-pass-is-not-the-enabled-set"
     ELSE IF ~(ToSet(c.ddmin) \subseteq (en \ {"BinaryReduction"}))
          THEN "ddmin-uses-a-disabled-mutator"
     ELSE IF ~((en \ {"BinaryReduction"}) \subseteq ToSet(c.ddmin))
          THEN "ddmin-does-not-schedule-an-enabled-mutator"
     ELSE "ok"

Init == i = 0
Next == i < Len(Cases) /\ i' = i + 1
Spec == Init /\ [][Next]_i
Judge == i > 0 => LET v == Verdict(Cases[i])
                  IN IF v = "ok" THEN TRUE ELSE PrintT(<<"FAIL", Cases[i].cid, v>>)
=============================================================================
