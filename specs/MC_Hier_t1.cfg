\* Hier quick: 4 atoms, 1 worker (sequential runs are reproducible: C18)
SPECIFICATION Spec
CONSTANTS
  NAtoms = 4
  Workers = {1}
  NPasses = 2
  Orig <- OrigDef
  None <- NoneDef
  TaskList <- NativeTasks
  MaxDepth1 <- NativeDepth1
INVARIANT TypeOK
INVARIANT OutfileAccepted
INVARIANT NoStaleAdoption
INVARIANT FinalIsLast
INVARIANT FixedPoint
INVARIANT LastSweepFull
INVARIANT FirstSuccessAdopted
PROPERTY Chain
PROPERTY Termination
