SPECIFICATION Spec
CONSTANTS
  Family = "cc"
INVARIANT UncheckedAcceptsAll
INVARIANT ExitMismatchRejects
INVARIANT IdenticalRunAccepted
INVARIANT IgnoreOutputOnlyExit
