\* Hier quick: 4 atoms, 2 workers (safety only), all commands, all schedules; safety + liveness
SPECIFICATION Spec
CONSTANTS
  NAtoms = 4
  Workers = {1, 2}
  NPasses = 2
  Orig <- OrigDef
  None <- NoneDef
  TaskList <- NativeTasks
  MaxDepth1 <- NativeDepth1
INVARIANT TypeOK
INVARIANT OutfileAccepted
INVARIANT NoStaleAdoption
INVARIANT FinalIsLast
INVARIANT FixedPoint
INVARIANT LastSweepFull
INVARIANT NoRevisit
PROPERTY Chain
