INIT TInit
NEXT TNext
CONSTANTS
  Inputs <- TInputs
  Strategy <- TStrategy
  Faulty <- TFaulty
INVARIANT THandOver
INVARIANT TFileIsCurrent
INVARIANT TReportTruthful
