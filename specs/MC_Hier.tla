------------------------------- MODULE MC_Hier ------------------------------
(***************************************************************************)
(* Native reduction system for model checking Hier.tla: an input is a      *)
(* strictly increasing sequence of atoms 1..NAtoms (a flat list: BFS node  *)
(* n is the n-th atom).  Mutator "E" erases the atom at a node; "R"        *)
(* replaces it by a smaller atom not in the input (several proposals per   *)
(* node).  Pass 1 = {E}, pass 2 = {E, R}: the last pass holds every        *)
(* mutator, as get_passes() builds it.  The system is acyclic (the sum of  *)
(* atoms decreases), so Termination must hold.                             *)
(***************************************************************************)
EXTENDS Hier, SequencesExt

CONSTANTS NAtoms
Atoms == 1..NAtoms
AscSeq(S) == SetToSortSeq(S, LAMBDA a, b: a < b)
OrigDef == AscSeq(Atoms)
NoneDef == <<0>>

PassMuts == << {"E"}, {"E", "R"} >>
MutOrder == <<"E", "R">>

Props(i, n, m) ==
  CASE m = "E" -> << AscSeq(Range(i) \ {i[n]}) >>
    [] m = "R" -> LET c == { b \in Atoms : b < i[n] /\ b \notin Range(i) }
                      cs == AscSeq(c)
                  IN [ k \in 1..Len(cs) |->
                         AscSeq((Range(i) \ {i[n]}) \cup {cs[k]}) ]
    [] OTHER -> <<>>

RECURSIVE TasksFrom(_, _, _)
TasksFrom(i, p, n) ==
  IF n > Len(i) THEN <<>>
  ELSE LET perMut(m) == IF m \in PassMuts[p]
                        THEN [ k \in 1..Len(Props(i, n, m)) |->
                                 [node |-> n, mut |-> m, cand |-> Props(i, n, m)[k]] ]
                        ELSE <<>>
       IN FoldLeft(LAMBDA acc, m: acc \o perMut(m), <<>>, MutOrder)
          \o TasksFrom(i, p, n + 1)
NativeTasks(i, p) == TasksFrom(i, p, 1)
NativeDepth1(p) == FALSE

(* state constraint for the larger instances: bound the number of checks *)
=============================================================================
