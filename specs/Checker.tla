------------------------------- MODULE Checker ------------------------------
(***************************************************************************)
(* The acceptance rule of ddSMT (C09), written from docs/quickstart.rst    *)
(* ("How Behavior is Compared with the Golden Run"), docs/guide-           *)
(* scenarios.rst (cross check) and the property text - not from            *)
(* checker.matches_golden:                                                 *)
(*                                                                         *)
(*   a candidate is accepted iff the exit code equals the golden exit code *)
(*   and, for each of stdout and stderr, the stream is ignored, or         *)
(*   contains the configured match string, or (absent a match string)      *)
(*   equals the golden stream; with a cross-check command the same must    *)
(*   hold for it against ITS OWN golden run (--ignore-output-cc ignores    *)
(*   both of its streams); with --unchecked every candidate is accepted.   *)
(*                                                                         *)
(* Streams are abstract: relative to the golden stream (which contains the *)
(* match string whenever one is configured) a candidate stream is          *)
(*   "same"     equal to golden (hence contains the match string)          *)
(*   "diff_m"   different, contains the match string                       *)
(*   "diff_nom" different, does not contain it                             *)
(*   "empty"    empty (different, does not contain it)                     *)
(* The module is a generator: TLC enumerates the configurations x outcomes *)
(* selected by Family and the final states carry the expected verdict;     *)
(* each is replayed into checker.do_golden_runs / check_exprs with real    *)
(* subprocesses.                                                           *)
(***************************************************************************)
EXTENDS Naturals, FiniteSets, TLC

CONSTANT Family   \* "main" | "cc" : which part of the product to enumerate

Kinds == {"same", "diff_m", "diff_nom", "empty"}
Contains(k) == k \in {"same", "diff_m"}
Equal(k)    == k = "same"

StreamOK(ignore, match, k) == ignore \/ (IF match THEN Contains(k) ELSE Equal(k))

AcceptOne(exitSame, ignO, ignE, mO, mE, o, e) ==
    exitSame /\ StreamOK(ignO, mO, o) /\ StreamOK(ignE, mE, e)

AcceptAll(c) ==
    \/ c.unchecked
    \/ /\ AcceptOne(c.exitSame, c.ignore_output \/ c.ignore_out,
                    c.ignore_output \/ c.ignore_err, c.match_out, c.match_err,
                    c.out, c.err)
       /\ c.cc => AcceptOne(c.ccExitSame, c.ignore_output_cc,
                            c.ignore_output_cc, c.match_out_cc, c.match_err_cc,
                            c.ccOut, c.ccErr)

VARIABLES done, case, expected
vars == <<done, case, expected>>

B == BOOLEAN

MainCases ==
  [unchecked : B, ignore_output : B, ignore_out : B, ignore_err : B,
   match_out : B, match_err : B, exitSame : B, out : Kinds, err : Kinds,
   cc : {FALSE}, ignore_output_cc : {FALSE}, match_out_cc : {FALSE},
   match_err_cc : {FALSE}, ccExitSame : {TRUE}, ccOut : {"same"},
   ccErr : {"same"}]

(* cross check: the full cross-check side x a few main-side situations     *)
(* (main accepts plainly / main rejects on exit / main accepts only thanks *)
(* to --ignore-output / main side uses a match string)                     *)
CcCases ==
  { c \in [unchecked : {FALSE}, ignore_output : B, ignore_out : {FALSE},
           ignore_err : {FALSE}, match_out : B, match_err : {FALSE},
           exitSame : B, out : {"same", "diff_m"}, err : {"same"},
           cc : {TRUE}, ignore_output_cc : B, match_out_cc : B,
           match_err_cc : B, ccExitSame : B, ccOut : Kinds, ccErr : Kinds] :
      TRUE }

InScope(c) ==
    \* every combination is in scope.  (An earlier version left out
    \* --unchecked with a match string, on the grounds that the placeholder
    \* output of a run that does not happen cannot contain the string; the
    \* property says that with --unchecked EVERY candidate is accepted and
    \* nothing is run, whatever else is configured.)
    TRUE

Choose == /\ ~done
          /\ \E c \in (IF Family = "main" THEN MainCases ELSE CcCases) :
               /\ InScope(c)
               /\ case' = c
               /\ expected' = AcceptAll(c)
          /\ done' = TRUE

Init == done = FALSE /\ case = <<>> /\ expected = FALSE
Next == Choose
Spec == Init /\ [][Next]_vars

(* sanity of the rule itself *)
UncheckedAcceptsAll == (done /\ case.unchecked) => expected
ExitMismatchRejects == (done /\ ~case.unchecked /\ ~case.exitSame) => ~expected
IdenticalRunAccepted ==
    (done /\ case.exitSame /\ case.out = "same" /\ case.err = "same"
          /\ (case.cc => case.ccExitSame /\ case.ccOut = "same" /\ case.ccErr = "same"))
       => expected
IgnoreOutputOnlyExit ==
    (done /\ ~case.unchecked /\ case.ignore_output /\ ~case.cc)
       => (expected <=> case.exitSame)
=============================================================================
