SPECIFICATION Spec
INVARIANT Judge
