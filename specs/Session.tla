------------------------------ MODULE Session ------------------------------
(***************************************************************************)
(* One ddSMT session at the grain of cli.ddsmt_main: parse, golden runs,   *)
(* the reduction phases of the chosen strategy (hybrid = ddmin, then       *)
(* hierarchical), the report.  The strategies themselves are Ddmin.tla and *)
(* Hier.tla; this module states how they are COMPOSED:                     *)
(*   - a phase starts from the current input (the original one, or what    *)
(*     the previous phase returned);                                       *)
(*   - inside a phase every adoption makes a NEW input current and writes  *)
(*     it to the output file at once;                                      *)
(*   - a phase returns the current input;                                  *)
(*   - ddsmt_main writes nothing itself: the report ("reduced" with the    *)
(*     statistics of the output file, or "unable to minimize") is decided  *)
(*     by comparing the returned input with the original one.              *)
(* A faulty hand-over (the second phase starting from a stale input, a     *)
(* phase returning something else than its last adoption) is invisible to  *)
(* the models of the phases; here it violates HandOver / FileIsCurrent.    *)
(***************************************************************************)
EXTENDS Naturals, Sequences, FiniteSets

CONSTANTS Inputs,     \* finite set of inputs (numbers), 0 is "none"
          Strategy,   \* "ddmin" | "hierarchical" | "hybrid"
          Faulty      \* "none" | "stale-handover" | "stale-result": variants TLC must refute

VARIABLES phase,      \* "start" | "ddmin" | "between" | "hier" | "finished" | "reported"
          orig,       \* the parsed input
          cur,        \* the current input of the running phase
          ret,        \* what the last finished phase returned
          file,       \* content of the output file (0 = does not exist)
          visited,    \* inputs that have been current
          report      \* "none" | "reduced" | "unable"

svars == <<phase, orig, cur, ret, file, visited, report>>

Phases == CASE Strategy = "ddmin"        -> <<"ddmin">>
            [] Strategy = "hierarchical" -> <<"hier">>
            [] Strategy = "hybrid"       -> <<"ddmin", "hier">>

SInit == /\ phase = "start" /\ orig \in Inputs /\ cur = orig /\ ret = orig
         /\ file = 0 /\ visited = {orig} /\ report = "none"

(* the phase starts from what the previous one returned *)
Begin(p) ==
    /\ \/ phase = "start" /\ p = Phases[1]
       \/ phase = "between" /\ Len(Phases) = 2 /\ p = Phases[2]
    /\ phase' = p
    /\ cur' = IF Faulty = "stale-handover" /\ phase = "between" THEN orig ELSE ret
    /\ UNCHANGED <<orig, ret, file, visited, report>>

(* an accepted candidate becomes current and is written (C05, C06: at once) *)
Adopt(c) ==
    /\ phase \in {"ddmin", "hier"}
    /\ c \in Inputs \ visited            \* C03: never an input seen before
    /\ cur' = c /\ file' = c /\ visited' = visited \cup {c}
    /\ UNCHANGED <<phase, orig, ret, report>>

End ==
    /\ phase \in {"ddmin", "hier"}
    /\ ret' = IF Faulty = "stale-result" /\ phase = "ddmin" THEN orig ELSE cur
    /\ phase' = IF phase = Phases[Len(Phases)] THEN "finished" ELSE "between"
    /\ UNCHANGED <<orig, cur, file, visited, report>>

Report ==
    /\ phase = "finished"
    /\ report' = IF ret # orig THEN "reduced" ELSE "unable"
    /\ phase' = "reported"
    /\ UNCHANGED <<orig, cur, ret, file, visited>>

SNext == \/ \E p \in {"ddmin", "hier"} : Begin(p)
         \/ \E c \in Inputs : Adopt(c)
         \/ End \/ Report
         \/ (phase = "reported" /\ UNCHANGED svars)

SSpec == SInit /\ [][SNext]_svars /\ WF_svars(SNext)

-----------------------------------------------------------------------------
TypeOK == /\ phase \in {"start", "ddmin", "between", "hier", "finished", "reported"}
          /\ orig \in Inputs /\ cur \in Inputs /\ ret \in Inputs
          /\ file \in Inputs \cup {0} /\ report \in {"none", "reduced", "unable"}

(* C05 across phases: whenever a phase runs, its current input is the last  *)
(* written one (or the original, if nothing was written yet)                *)
HandOver ==
    phase \in {"ddmin", "hier"} => cur = IF file = 0 THEN orig ELSE file

(* C01/C05: between and after the phases the file holds what was returned   *)
FileIsCurrent ==
    phase \in {"between", "finished", "reported"} =>
        ret = IF file = 0 THEN orig ELSE file

(* the report tells the truth, and the file whose size it reports exists    *)
ReportTruthful ==
    /\ report = "reduced" => file # 0 /\ file = ret /\ ret # orig
    /\ report = "unable"  => file = 0 /\ ret = orig

Finishes == <>(phase = "reported")
=============================================================================
