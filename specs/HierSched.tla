------------------------------ MODULE HierSched -----------------------------
(***************************************************************************)
(* Hier.tla restricted to the behaviours a harness can DICTATE to the real *)
(* pool, with the decisions recorded so that every behaviour can be        *)
(* replayed into strategy_hierarchical.reduce (specification -> code).     *)
(*                                                                         *)
(* What the harness controls is the moment at which a running check        *)
(* completes: the command under test blocks on a scheduler after it has    *)
(* computed its answer (worker state "post").  Everything else - the       *)
(* producer thread running ahead, idle workers taking tasks, the main loop *)
(* consuming results - happens by itself and is over long before the next  *)
(* release.  So the dictated behaviours are those in which a completion    *)
(* (WPost) happens only at a DECISION POINT: a state in which no internal  *)
(* step is enabled.  Which of the blocked checks completes is the choice;  *)
(* the verdicts are chosen by WPre as in Hier (all deterministic commands).*)
(*                                                                         *)
(* `plan` records per sweep its pass, skip and input, and per completion   *)
(* the task, its candidate, the verdict, whether the abort flag was set,   *)
(* and the candidates that were in flight: the scheduler of the replay     *)
(* waits for exactly that set of blocked checks before it releases one.    *)
(* Every behaviour of SSpec is a behaviour of Hier!Spec (the same actions, *)
(* fewer interleavings), so all properties of Hier are checked here too -  *)
(* over the reduction system EXTRACTED from the real mutators and passes.  *)
(***************************************************************************)
EXTENDS Hier

VARIABLE plan
svars == <<vars, plan>>

(* the lowest idle worker takes the next task (workers are symmetric) *)
TakeLowest(w) ==
  /\ Take(w)
  /\ \A u \in Workers : u < w => wk[u].st # "idle"

Internal == \/ Produce \/ MainRecv \/ SweepEnd
            \/ \E w \in Workers : TakeLowest(w) \/ WPre(w)

InFlight == { w \in Workers : wk[w].st = "post" }

SSweepStart ==
  /\ SweepStart
  /\ plan' = Append(plan, [k |-> "sweep", pass |-> passid, skip |-> skip,
                           base |-> base])

DecisionPoint == ~ENABLED Internal /\ ~ENABLED SweepStart

Complete(w) ==
  /\ DecisionPoint
  /\ WPost(w)
  /\ plan' = Append(plan,
        [k |-> "done", seq |-> wk[w].task.seq, node |-> wk[w].task.node,
         cand |-> wk[w].task.cand, v |-> wk[w].v, ab |-> abort,
         inflight |-> [u \in InFlight |-> wk[u].task.cand]])

SNext == \/ SSweepStart
         \/ (Internal /\ UNCHANGED plan)
         \/ \E w \in Workers : Complete(w)

SInit == Init /\ plan = <<>>
SSpec == SInit /\ [][SNext]_svars /\ WF_svars(SNext)

(* SSpec refines Hier!Spec step by step *)
StepOfHier == [][Next]_vars

Accepted == { c \in DOMAIN verdict : verdict[c] }
Rejected == { c \in DOMAIN verdict : ~verdict[c] }

(* one line per distinct complete behaviour *)
Emit == pc = "done" =>
          PrintT(<<"BEH", plan, hist.chain, Accepted, Rejected, outfile>>)

(* bound for the larger systems: number of sweeps *)
MaxSweeps == 12
SweepBound == hist.nsweeps <= MaxSweeps
=============================================================================
