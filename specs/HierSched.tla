------------------------------ MODULE HierSched -----------------------------
(***************************************************************************)
(* Hier.tla restricted to the behaviours a harness can DICTATE to the real *)
(* pool, with the decisions recorded so that every behaviour can be        *)
(* replayed into strategy_hierarchical.reduce (specification -> code).     *)
(*                                                                         *)
(* What the harness controls is the moment at which a running check        *)
(* completes: the command under test blocks on a scheduler after it has    *)
(* computed its answer (worker state "post").  Everything else - the       *)
(* producer thread running ahead, idle workers taking tasks, the main loop *)
(* consuming results - happens by itself and is over long before the next  *)
(* release.  So the dictated behaviours are those in which a completion    *)
(* (WPost) happens only at a DECISION POINT: a state in which no internal  *)
(* step is enabled.  Which of the blocked checks completes is the choice;  *)
(* the verdicts are chosen by WPre as in Hier (all deterministic commands).*)
(*                                                                         *)
(* With MaxLate > 0 the harness can also HOLD the main loop after it has   *)
(* received a success (a gate in the launcher) and let further checks      *)
(* complete meanwhile: results computed against the superseded input that  *)
(* are real, not abort results.                                            *)
(*                                                                         *)
(* `plan` records per sweep its pass, skip and input, and per completion   *)
(* the task, its candidate, the verdict, whether the abort flag was set,   *)
(* and the candidates that were in flight: the scheduler of the replay     *)
(* waits for exactly that set of blocked checks before it releases one.    *)
(* Every behaviour of SSpec is a behaviour of Hier!Spec (the same actions, *)
(* fewer interleavings), so all properties of Hier are checked here too -  *)
(* over the reduction system EXTRACTED from the real mutators and passes.  *)
(***************************************************************************)
EXTENDS Hier

CONSTANT MaxLate    \* late completions per busy period of the main loop

VARIABLES plan,
          slow,     \* the main loop is busy: a success waits in `results`
          nlate     \* completions since it became busy
svars == <<vars, plan, slow, nlate>>

(* the lowest idle worker takes the next task (workers are symmetric) *)
TakeLowest(w) ==
  /\ Take(w)
  /\ \A u \in Workers : u < w => wk[u].st # "idle"

(* steps that happen by themselves; the main loop consumes a result at     *)
(* once unless it is busy                                                  *)
Internal == \/ Produce \/ SweepEnd
            \/ (~slow /\ MainRecv)
            \/ \E w \in Workers : TakeLowest(w) \/ WPre(w)

InFlight == { w \in Workers : wk[w].st = "post" }

SSweepStart ==
  /\ SweepStart
  /\ plan' = Append(plan, [k |-> "sweep", pass |-> passid, skip |-> skip,
                           base |-> base])
  /\ UNCHANGED <<slow, nlate>>

DecisionPoint == ~ENABLED Internal /\ ~ENABLED SweepStart

(* A completion.  If it is a success that the main loop would act on, the  *)
(* harness may hold the main loop (`slow`): up to MaxLate further checks   *)
(* then complete with the abort flag still clear - real results of the     *)
(* superseded input, which the main loop must discard once it has acted on *)
(* the first (the second WPost before MainRecv of Hier.tla).               *)
Complete(w) ==
  /\ DecisionPoint
  /\ slow => nlate < MaxLate
  /\ WPost(w)
  /\ \E s \in (IF ~slow /\ wk[w].v /\ ~abort /\ MaxLate > 0
               THEN BOOLEAN ELSE {slow}) :
       /\ slow' = s
       /\ plan' = Append(plan,
             [k |-> "done", seq |-> wk[w].task.seq, node |-> wk[w].task.node,
              cand |-> wk[w].task.cand, v |-> wk[w].v, ab |-> abort,
              late |-> slow, holds |-> (s /\ ~slow),
              inflight |-> [u \in InFlight |-> wk[u].task.cand]])
  /\ nlate' = IF slow THEN nlate + 1 ELSE 0

(* the harness lets the main loop go on *)
Wake ==
  /\ DecisionPoint /\ slow
  /\ slow' = FALSE
  /\ UNCHANGED <<vars, plan, nlate>>

SNext == \/ SSweepStart
         \/ (Internal /\ UNCHANGED <<plan, slow, nlate>>)
         \/ \E w \in Workers : Complete(w)
         \/ Wake

SInit == Init /\ plan = <<>> /\ slow = FALSE /\ nlate = 0
SSpec == SInit /\ [][SNext]_svars /\ WF_svars(SNext)

(* SSpec refines Hier!Spec step by step *)
StepOfHier == [][Next]_vars

Accepted == { c \in DOMAIN verdict : verdict[c] }
Rejected == { c \in DOMAIN verdict : ~verdict[c] }

(* one line per distinct complete behaviour *)
Emit == pc = "done" =>
          PrintT(<<"BEH", plan, hist.chain, Accepted, Rejected, outfile>>)

(* bound for the larger systems: number of sweeps *)
MaxSweeps == 12
SweepBound == hist.nsweeps <= MaxSweeps
=============================================================================
