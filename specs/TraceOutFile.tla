---------------------------- MODULE TraceOutFile ----------------------------
(***************************************************************************)
(* Code -> spec for C06: the system calls a real ddSMT run made on its     *)
(* output path (and on sibling temporary files), recorded with strace, are *)
(* replayed through the system-call actions of OutFile.tla.  Every prefix  *)
(* of the trace is a crash point (SIGKILL) and a reader point, so the      *)
(* invariant OutComplete is evaluated after every system call: from the    *)
(* first moment the output path holds a complete accepted text it must     *)
(* hold one in every state.  Accepted = the renderings of the inputs the   *)
(* run accepted (byte sequences recorded by the launcher).                 *)
(***************************************************************************)
EXTENDS OutFile, Json, IOUtils

Trace == JsonDeserialize(IOEnv.TRACE)
Ev == Trace.events
AcceptedT == {Trace.accepted[i] : i \in 1..Len(Trace.accepted)}
PathsT == {Trace.paths[i] : i \in 1..Len(Trace.paths)}
FdsT == {Trace.fds[i] : i \in 1..Len(Trace.fds)}
OutT == Trace.out

VARIABLE l
tvars == <<dir, data, fds, nextIno, started, l>>

VisibleT == IF dir[OutT] = 0 THEN <<>> ELSE data[dir[OutT]]

TInit == /\ dir = [p \in PathsT |-> IF p = OutT /\ Trace.preexisting THEN 1 ELSE 0]
         /\ data = [i \in 1..(Len(Ev) + 2) |-> IF i = 1 /\ Trace.preexisting
                                                THEN Trace.initial ELSE <<>>]
         /\ fds = [f \in FdsT |-> 0] /\ nextIno = 2
         /\ started = FALSE /\ l = 1
         /\ pc = "trace" /\ cur = 0 /\ chunk = 0

E == Ev[l]
Step ==
  /\ l <= Len(Ev)
  /\ CASE E.op = "open" /\ E.trunc ->
              OpenTrunc(E.path, E.fd)
       [] E.op = "open" /\ ~E.trunc ->
              IF dir[E.path] # 0
              THEN /\ fds' = [fds EXCEPT ![E.fd] = dir[E.path]]
                   /\ UNCHANGED <<dir, data, nextIno>>
              ELSE OpenTrunc(E.path, E.fd)
       [] E.op = "write"  -> Write(E.fd, E.data)
       [] E.op = "close"  -> Close(E.fd)
       [] E.op = "rename" -> Rename(E.src, E.dst)
       [] E.op = "unlink" -> Unlink(E.path)
  /\ l' = l + 1
  /\ started' = (started \/ VisibleT' \in AcceptedT)
  /\ UNCHANGED <<pc, cur, chunk>>

Finish == /\ l = Len(Ev) + 1
          /\ PrintT(<<"ACCEPT", Len(Ev)>>)
          /\ l' = l + 1
          /\ UNCHANGED <<dir, data, fds, nextIno, started, pc, cur, chunk>>

TNext == Step \/ Finish
TSpec == TInit /\ [][TNext]_<<vars, l>>

(* the property, on the trace *)
OutCompleteT == started => VisibleT \in AcceptedT
(* at the end the file holds the last accepted text *)
FinalT == (l > Len(Ev) /\ Len(Trace.accepted) > 0)
             => VisibleT = Trace.accepted[Len(Trace.accepted)]
=============================================================================
