------------------------------- MODULE HierBad ------------------------------
(***************************************************************************)
(* Faulty variants of strategy_hierarchical.reduce, each of which the      *)
(* properties of Hier.tla must REFUTE (the checks require TLC to report    *)
(* the violation): the invariants are not vacuous, and each listed         *)
(* mechanism of the code is what a property rests on.                      *)
(*                                                                         *)
(*  stale   : the main loop adopts a success although the abort flag is    *)
(*            set (a result computed against a replaced input)             *)
(*            -> NoStaleAdoption / Chain (C05)                             *)
(*  early   : the last pass is left after an unsuccessful sweep that did   *)
(*            not start at node 0                                          *)
(*            -> FixedPoint / LastSweepFull (C02)                          *)
(*  nocheck : a worker reports success without consulting the command      *)
(*            -> OutfileAccepted (C01)                                     *)
(*  later   : with one worker, the main loop keeps the LAST success of a   *)
(*            sweep instead of the first                                   *)
(*            -> FirstSuccessAdopted (C18)                                 *)
(***************************************************************************)
EXTENDS MC_Hier

CONSTANT Variant

BadRecvOn(r) ==
  /\ pc = "loop"
  /\ IF r.ok /\ (Variant \in {"stale", "later"} \/ ~abort)
     THEN /\ abort' = TRUE /\ reduction' = TRUE
          /\ base' = r.cand /\ skip' = r.node - 1 /\ fresh' = FALSE
          /\ outfile' = r.cand
          /\ hist' = [hist EXCEPT !.chain = Append(@, r.cand),
                                  !.adoptedSeq = r.seq]
     ELSE IF abort
          THEN /\ skip' = Min2(skip, r.node - 1)
               /\ UNCHANGED <<base, fresh, reduction, abort, outfile, hist>>
          ELSE UNCHANGED <<base, skip, fresh, reduction, abort, outfile, hist>>
  /\ UNCHANGED <<passid, verdict, pc>>

BadRecv == /\ results # <<>>
           /\ IF Variant \in {"stale", "later"} THEN BadRecvOn(Head(results))
              ELSE MainRecvOn(Head(results))
           /\ results' = Tail(results)
           /\ UNCHANGED <<gen, queue, wk>>

(* workers that do not see the flag before returning (so that a stale      *)
(* success reaches the main loop as a success)                             *)
BadPost(w) ==
  /\ wk[w].st = "post"
  /\ LET t == wk[w].task IN
     results' = Append(results,
        [seq |-> t.seq, node |-> t.node, mut |-> t.mut, ok |-> wk[w].v,
         ab |-> FALSE, cand |-> IF wk[w].v THEN t.cand ELSE None,
         tbase |-> t.tbase])
  /\ wk' = [wk EXCEPT ![w] = Idle]
  /\ UNCHANGED <<base, passid, skip, fresh, reduction, abort, gen, queue,
                 verdict, outfile, pc, hist>>

BadPre(w) ==
  /\ wk[w].st = "pre" /\ ~abort
  /\ wk' = [wk EXCEPT ![w] = [st |-> "post", task |-> wk[w].task, v |-> TRUE]]
  /\ UNCHANGED <<base, passid, skip, fresh, reduction, abort, gen, queue,
                 results, verdict, outfile, pc, hist>>

BadSweepEnd ==
  /\ Quiet /\ pc = "loop"
  /\ IF reduction
     THEN pc' = "sweepstart" /\ UNCHANGED <<passid, skip, fresh>>
     ELSE IF passid < NPasses
          THEN /\ passid' = passid + 1 /\ skip' = 0 /\ fresh' = TRUE
               /\ pc' = "sweepstart"
          ELSE pc' = "done" /\ UNCHANGED <<passid, skip, fresh>>
  /\ UNCHANGED <<base, reduction, abort, verdict, outfile, hist,
                 gen, queue, wk, results>>

BadNext ==
  \/ SweepStart \/ Produce \/ BadRecv
  \/ (IF Variant = "early" THEN BadSweepEnd ELSE SweepEnd)
  \/ \E w \in Workers :
        \/ Take(w)
        \/ (IF Variant = "nocheck" THEN BadPre(w) ELSE WPre(w))
        \/ (IF Variant \in {"stale", "later"} THEN BadPost(w) ELSE WPost(w))

BadSpec == Init /\ [][BadNext]_vars
=============================================================================
