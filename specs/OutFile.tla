------------------------------- MODULE OutFile ------------------------------
(***************************************************************************)
(* A small POSIX file-system model, a writer and a crash/reader (C06).     *)
(*                                                                         *)
(*   dir   : path -> inode (0 = no such entry)                             *)
(*   data  : inode -> content (sequence of bytes/chunks)                   *)
(*   fds   : open descriptors of the writer: fd -> inode                   *)
(* System calls (one action each): OpenTrunc, OpenCreat, Write, Close,     *)
(* Rename, Unlink.  A concurrent reader or a crash (SIGKILL) can happen    *)
(* between any two system calls, so the property is a STATE invariant:     *)
(*                                                                         *)
(*   OutComplete: from the first moment the output path holds the complete *)
(*   text of an accepted input, it holds the complete text of SOME         *)
(*   accepted input in every state.                                        *)
(*                                                                         *)
(* Because the model is of the file system and not of one write protocol,  *)
(* any correct protocol (temporary file + rename, link/unlink ...) is      *)
(* accepted and truncate-then-fill is rejected.  The writer below performs *)
(* K successive rewrites following `Protocol`; TraceOutFile.tla replays    *)
(* the system calls of real runs through the same actions.                 *)
(***************************************************************************)
EXTENDS Naturals, Sequences, FiniteSets, TLC

CONSTANTS Protocol,   \* "truncate" | "rename"
          K,          \* number of successive accepted inputs
          Chunks,     \* number of write() calls per rewrite
          Accepted    \* set of complete texts of accepted inputs

OUT == "out"
TMP == "tmp"
Paths == {OUT, TMP}

Content(k) == [c \in 1..Chunks |-> <<k, c>>]   \* complete text of input k
NativeAccepted == {Content(k) : k \in 1..K}

VARIABLES dir, data, fds, nextIno, pc, cur, chunk, started
vars == <<dir, data, fds, nextIno, pc, cur, chunk, started>>

Visible == IF dir[OUT] = 0 THEN <<>> ELSE data[dir[OUT]]

(* --- system calls ------------------------------------------------------ *)
OpenTrunc(p, fd) ==
  IF dir[p] # 0
  THEN /\ data' = [data EXCEPT ![dir[p]] = <<>>]
       /\ fds' = [fds EXCEPT ![fd] = dir[p]]
       /\ UNCHANGED <<dir, nextIno>>
  ELSE /\ dir' = [dir EXCEPT ![p] = nextIno]
       /\ data' = [data EXCEPT ![nextIno] = <<>>]
       /\ fds' = [fds EXCEPT ![fd] = nextIno]
       /\ nextIno' = nextIno + 1

Write(fd, bytes) == /\ data' = [data EXCEPT ![fds[fd]] = @ \o bytes]
                    /\ UNCHANGED <<dir, fds, nextIno>>
Close(fd) == fds' = [fds EXCEPT ![fd] = 0] /\ UNCHANGED <<dir, data, nextIno>>
Rename(s, d) == /\ dir' = [dir EXCEPT ![d] = dir[s], ![s] = 0]
                /\ UNCHANGED <<data, fds, nextIno>>
Unlink(p) == dir' = [dir EXCEPT ![p] = 0] /\ UNCHANGED <<data, fds, nextIno>>

(* --- the writer: K rewrites --------------------------------------------- *)
Target == IF Protocol = "rename" THEN TMP ELSE OUT

WOpen == /\ pc = "open" /\ cur <= K
         /\ OpenTrunc(Target, 1)
         /\ pc' = "write" /\ chunk' = 1 /\ UNCHANGED cur

WWrite == /\ pc = "write" /\ chunk <= Chunks
          /\ Write(1, << <<cur, chunk>> >>)
          /\ chunk' = chunk + 1 /\ UNCHANGED <<pc, cur>>

WClose == /\ pc = "write" /\ chunk > Chunks
          /\ Close(1)
          /\ pc' = IF Protocol = "rename" THEN "rename" ELSE "next"
          /\ UNCHANGED <<cur, chunk>>

WRename == /\ pc = "rename"
           /\ Rename(TMP, OUT)
           /\ pc' = "next" /\ UNCHANGED <<cur, chunk>>

WNext == /\ pc = "next"
         /\ cur' = cur + 1 /\ pc' = "open"
         /\ UNCHANGED <<dir, data, fds, nextIno, chunk>>

(* history: the first complete accepted text became visible *)
Observe == started' = (started \/ Visible' \in Accepted)

Next == (WOpen \/ WWrite \/ WClose \/ WRename \/ WNext) /\ Observe

Init == /\ dir = [p \in Paths |-> 0] /\ data = [i \in 1..(2 * K + 2) |-> <<>>]
        /\ fds = [f \in {1} |-> 0] /\ nextIno = 1
        /\ pc = "open" /\ cur = 1 /\ chunk = 1 /\ started = FALSE

Spec == Init /\ [][Next]_vars

OutComplete == started => Visible \in Accepted
(* once visible, accepted inputs appear in order and the file ends with the last one *)
FinalIsLast == (cur > K /\ pc = "open") => Visible = Content(K)
=============================================================================
