\* Ddmin sequential mode (-j 1): 5 atoms
SPECIFICATION Spec
CONSTANTS
  NAtoms = 5
  Workers = {1}
  Par = FALSE
  Shrinks <- NativeShrinks
INVARIANT OutfileAccepted
INVARIANT FinalIsLast
INVARIANT NoRevisit
INVARIANT OneMinimal
INVARIANT SeqDeterministic
PROPERTY Chain
PROPERTY Termination
