------------------------------ MODULE GenTerms ------------------------------
(***************************************************************************)
(* Generator of well-sorted terms with their typing (C16): TLC enumerates  *)
(* every operator of SmtSem!ResSort applied to operands of every           *)
(* admissible sort combination of a small sort universe, and records for   *)
(* every term position the sort SmtSem!SortOf assigns.  Every final state  *)
(* (done = TRUE) is one case: the harness renders Preamble + term, runs    *)
(* the real collect_information and compares get_sort / get_bv_width at    *)
(* every term position with `ann`.                                         *)
(*                                                                         *)
(* depth 1: (op a1 .. an), all ai canonical variables of their sorts       *)
(*          except one position that ranges over every atom of its sort    *)
(*          (variables, constants in every notation, applications of       *)
(*          declared functions - whose sort ddSMT cannot infer).           *)
(* depth 2: an operator of Outer2 around a depth-1 term at one position.   *)
(* special: let, quantifiers, annotations, constructors, selectors,        *)
(*          testers, applications of declared functions.                   *)
(* Every symbol of Preamble is declared once; bound names are distinct.    *)
(***************************************************************************)
EXTENDS SmtSem

CONSTANTS Depth,        \* 1 or 2
          Universe      \* "small" | "full"

VARIABLES t, ann, done
vars == <<t, ann, done>>

A(h, args) == N(<<L(h)>> \o args)
IdxHead(nm, ix) == N(<<L("_"), L(nm)>> \o [j \in 1..Len(ix) |-> L(ToString(ix[j]))])
AI(nm, ix, args) == N(<<IdxHead(nm, ix)>> \o args)

(* sort value -> sort expression *)
RECURSIVE SortSx(_)
SortSx(s) ==
    CASE s = SBool -> L("Bool") [] s = SInt -> L("Int") [] s = SReal -> L("Real")
      [] s = SStr -> L("String") [] s = SReg -> L("RegLan")
      [] s = SRM -> L("RoundingMode")
      [] IsBV(s) -> N(<<L("_"), L("BitVec"), L(ToString(s[2]))>>)
      [] IsFP(s) -> N(<<L("_"), L("FloatingPoint"), L(ToString(s[2])), L(ToString(s[3]))>>)
      [] IsArr(s) -> N(<<L("Array"), SortSx(s[2]), SortSx(s[3])>>)
      [] IsDT(s) -> L(s[2])
      [] OTHER -> L("?")

DTP == DT("P")
SmallSorts == {SBool, SInt, SReal, BV(1), BV(3), BV(8), FP(3, 5), SRM,
               Arr(SInt, BV(3)), DTP}
FullSorts == SmallSorts \cup {BV(2), BV(4), SStr, SReg, FP(5, 11),
                              Arr(BV(3), SInt)}
SortsU == IF Universe = "small" THEN SmallSorts ELSE FullSorts

(* canonical variable of a sort (declared in Preamble) *)
VarName(s) ==
    CASE s = SBool -> "pb" [] s = SInt -> "vi" [] s = SReal -> "vr"
      [] s = SStr -> "vs" [] s = SReg -> "vg" [] s = SRM -> "vm"
      [] s = BV(1) -> "v1" [] s = BV(2) -> "v2" [] s = BV(3) -> "v3"
      [] s = BV(4) -> "v4" [] s = BV(8) -> "v8"
      [] s = FP(3, 5) -> "vf" [] s = FP(5, 11) -> "vh"
      [] s = Arr(SInt, BV(3)) -> "va" [] s = Arr(BV(3), SInt) -> "vb"
      [] s = DTP -> "vp"
Var(s) == L(VarName(s))
(* a second variable of the sort, and a function from Int into the sort *)
Var2(s) == L(VarName(s) \o "x")
Fun(s) == "f" \o VarName(s)
Opaque(s) == A(Fun(s), <<L("vi")>>)

AllSorts == FullSorts
Decl(name, s) == A("declare-const", <<L(name), SortSx(s)>>)
DeclF(name, s) == A("declare-fun", <<L(name), N(<<L("Int")>>), SortSx(s)>>)
DeclsFor(s) == <<Decl(VarName(s), s), Decl(VarName(s) \o "x", s)>>
               \o (IF s = SReg THEN <<>> ELSE <<DeclF(Fun(s), s)>>)
RECURSIVE DeclsOf(_)
DeclsOf(S) == IF S = {} THEN <<>>
              ELSE LET s == CHOOSE x \in S : TRUE
                   IN DeclsFor(s) \o DeclsOf(S \ {s})
DatatypeDecl ==
    A("declare-datatype",
      <<L("P"), N(<< N(<<L("mk"), N(<<L("fst"), L("Int")>>),
                                  N(<<L("snd"), SortSx(BV(3))>>)>>),
                     N(<<L("nil")>>) >>)>>)
(* the datatype first: its name is needed by the declarations of sort P *)
Preamble == <<DatatypeDecl>> \o DeclsOf(AllSorts)
Env == EnvOf(Preamble)

(* constants of a sort in every notation *)
Consts(s) ==
    CASE s = SBool -> {L("true"), L("false")}
      [] s = SInt -> {L("0"), L("7"), L("12")}
      [] s = SReal -> {L("1.5"), L("0.0"), A("/", <<L("1.0"), L("3.0")>>)}
      [] s = SStr -> {L("\"ab\""), L("\"\"")}
      [] s = SReg -> {L("re.all"), A("str.to_re", <<L("vs")>>)}
      [] s = SRM -> {L("RNE"), L("roundTowardZero")}
      [] s = BV(1) -> {L("#b1"), N(<<L("_"), L("bv0"), L("1")>>)}
      [] s = BV(2) -> {L("#b10"), N(<<L("_"), L("bv3"), L("2")>>)}
      [] s = BV(3) -> {L("#b101"), N(<<L("_"), L("bv5"), L("3")>>)}
      [] s = BV(4) -> {L("#xa"), L("#b0110"), N(<<L("_"), L("bv9"), L("4")>>)}
      [] s = BV(8) -> {L("#xA5"), L("#b10100101"), N(<<L("_"), L("bv165"), L("8")>>)}
      [] s = FP(3, 5) -> {A("fp", <<L("#b0"), L("#b011"), L("#b0000")>>),
                          N(<<L("_"), L("+oo"), L("3"), L("5")>>)}
      [] s = FP(5, 11) -> {N(<<L("_"), L("NaN"), L("5"), L("11")>>)}
      [] s = DTP -> {L("nil"), A("mk", <<L("vi"), L("v3")>>)}
      [] OTHER -> {}
Atoms(s) == {Var(s), Var2(s)} \cup Consts(s)
            \cup (IF s = SReg THEN {} ELSE {Opaque(s)})

-----------------------------------------------------------------------------
(* operator instances: <<name, indices, arities>> *)
Plain(nm, ars) == [op |-> nm, ix |-> <<>>, ars |-> ars]
Indexed(nm, ix, ars) == [op |-> nm, ix |-> ix, ars |-> ars]

CoreOps == {Plain("not", {1})} \cup
           {Plain(o, {2, 3}) : o \in {"and", "or", "xor", "=>", "=", "distinct"}}
           \cup {Plain("ite", {3})}
ArithOps == {Plain(o, {2, 3}) : o \in {"+", "*", "/", "<", "<=", ">", ">=", "div"}}
            \cup {Plain("-", {1, 2, 3}), Plain("mod", {2}), Plain("abs", {1}),
                  Plain("to_real", {1}), Plain("to_int", {1}), Plain("is_int", {1}),
                  Indexed("divisible", <<3>>, {1})}
ExtractIdx == {<<0, 0>>, <<2, 0>>, <<2, 1>>, <<2, 2>>, <<1, 0>>, <<7, 0>>, <<7, 4>>,
               <<4, 3>>, <<3, 0>>}
BVOps == {Plain(o, {2}) : o \in BVBinSame \cup BVRel \cup {"bvcomp", "concat"}}
         \cup {Plain(o, {3}) : o \in BVLeftAssoc}
         \cup {Plain("bvnot", {1}), Plain("bvneg", {1})}
         \cup {Indexed("extract", ix, {1}) : ix \in ExtractIdx}
         \cup {Indexed(o, <<i>>, {1}) : o \in {"zero_extend", "sign_extend"}, i \in {0, 1, 5}}
         \cup {Indexed("repeat", <<i>>, {1}) : i \in {1, 2, 3}}
         \cup {Indexed(o, <<i>>, {1}) : o \in {"rotate_left", "rotate_right"}, i \in {0, 1, 9}}
ArrayOps == {Plain("select", {2}), Plain("store", {3})}
FPOps == {Plain("fp", {3}), Plain("fp.fma", {4})}
         \cup {Plain(o, {1}) : o \in FPUn \cup FPPred \cup {"fp.to_real"}}
         \cup {Plain(o, {2}) : o \in FPBin \cup FPRmUn \cup FPRel}
         \cup {Plain(o, {3}) : o \in FPRmBin}
         \cup {Indexed("to_fp", ix, {1, 2}) : ix \in {<<3, 5>>, <<5, 11>>}}
         \cup {Indexed("to_fp_unsigned", <<3, 5>>, {2})}
         \cup {Indexed(o, <<m>>, {2}) : o \in {"fp.to_ubv", "fp.to_sbv"}, m \in {1, 8}}
StrOps == {Plain("str.++", {2, 3}), Plain("str.len", {1}), Plain("str.at", {2}),
           Plain("str.substr", {3}), Plain("str.indexof", {3}),
           Plain("str.replace", {3}), Plain("str.replace_all", {3}),
           Plain("str.replace_re", {3}), Plain("str.replace_re_all", {3}),
           Plain("str.is_digit", {1}), Plain("str.to_code", {1}),
           Plain("str.to_int", {1}), Plain("str.from_code", {1}),
           Plain("str.from_int", {1}), Plain("str.in_re", {2}),
           Plain("str.to_re", {1}), Plain("re.diff", {2}), Plain("re.range", {2}),
           Indexed("re.^", <<2>>, {1}), Indexed("re.loop", <<1, 2>>, {1})}
          \cup {Plain(o, {2}) : o \in StrStrBool \cup ReN}
          \cup {Plain(o, {1}) : o \in ReUn}
Ops == CoreOps \cup ArithOps \cup BVOps \cup ArrayOps \cup FPOps
       \cup (IF Universe = "full" THEN StrOps ELSE {})

(* operators whose inferred sort or width depends on an argument's: the    *)
(* outer operators of depth-2 terms                                        *)
Outer2Names == {"ite", "+", "-", "*", "concat", "zero_extend", "sign_extend",
                "repeat", "rotate_left", "extract", "bvadd", "bvnot", "bvneg",
                "bvand", "bvcomp", "bvult", "select", "store", "fp", "fp.abs",
                "fp.add", "fp.neg", "fp.rem", "fp.sqrt", "fp.min", "=", "not",
                "to_fp", "fp.to_ubv"}

SortTuples(n) == [1..n -> SortsU]
Build(o, args) == IF o.ix = <<>> THEN A(o.op, args) ELSE AI(o.op, o.ix, args)

(* depth-1 terms: operator, admissible argument sorts, star position j,  *)
(* atom at j                                                             *)
D1Terms ==
    UNION {UNION {UNION {
        IF ResSort(o.op, o.ix, as) = Ill THEN {}
        ELSE UNION {{Build(o, [m \in 1..n |-> IF m = j THEN a ELSE Var(as[m])]) :
                       a \in Atoms(as[j])} : j \in 1..n}
        : as \in SortTuples(n)} : n \in o.ars} : o \in Ops}

Special ==
    LET S == SortsU \ {SReg}
    IN UNION {
         {A("let", <<N(<<N(<<L("lv"), a>>)>>), L("lv")>>) : a \in Atoms(s)}
         \cup {A("let", <<N(<<N(<<L("lv"), a>>)>>), A("=", <<L("lv"), Var(s)>>)>>) :
                 a \in Atoms(s)}
         \cup {A("let", <<N(<<N(<<L("lv"), Var(s)>>), N(<<L("lw"), Var2(s)>>)>>),
                         A("distinct", <<L("lw"), L("lv")>>)>>)}
         \cup {A(q, <<N(<<N(<<L("qv"), SortSx(s)>>)>>), A("=", <<L("qv"), Var(s)>>)>>) :
                 q \in {"forall", "exists"}}
         \cup {A("!", <<a, L(":named"), L("nm")>>) : a \in {Var(s), Opaque(s)}}
         : s \in S}
       \cup {A("fst", <<a>>) : a \in Atoms(DTP)}
       \cup {A("snd", <<a>>) : a \in Atoms(DTP)}
       \cup {N(<<N(<<L("_"), L("is"), L(c)>>), a>>) : c \in {"mk", "nil"}, a \in Atoms(DTP)}
       \cup {A("mk", <<a, b>>) : a \in Atoms(SInt), b \in Atoms(BV(3))}
       \* a declared function applied to an application of a declared
       \* function: ddSMT knows neither sort
       \cup {A(Fun(s), <<Opaque(SInt)>>) : s \in SortsU \ {SReg}}

Outer2 == {o \in Ops : o.op \in Outer2Names}
InnerSorts == {s \in SortsU : IsBV(s) \/ IsFP(s) \/ IsArr(s) \/ s \in {SInt, SReal, SBool}}

(* inner terms of depth-2 terms: every operator instance over canonical    *)
(* variables, and the special forms; grouped by sort (evaluated once)      *)
D1Plain ==
    UNION {UNION {{Build(o, [m \in 1..n |-> Var(as[m])]) :
                     as \in {x \in SortTuples(n) : ResSort(o.op, o.ix, x) # Ill}}
                  : n \in o.ars} : o \in Ops}
InnerBySort == [s \in InnerSorts |->
                  {d \in D1Plain \cup Special : SortOf(d, Env, EmptyFn) = s}]

D2Terms ==
    UNION {UNION {UNION {
        IF ResSort(o.op, o.ix, as) = Ill THEN {}
        ELSE UNION {IF as[j] \in InnerSorts
                    THEN {Build(o, [m \in 1..n |-> IF m = j THEN d ELSE Var(as[m])]) :
                            d \in InnerBySort[as[j]]}
                    ELSE {} : j \in 1..n}
        : as \in SortTuples(n)} : n \in o.ars} : o \in Outer2}
       \cup UNION {{A("let", <<N(<<N(<<L("lv"), d>>)>>),
                               A("=", <<L("lv"), Var(s)>>)>>) : d \in InnerBySort[s]}
                   : s \in InnerSorts}

AllTerms == D1Terms \cup Special \cup (IF Depth >= 2 THEN D2Terms ELSE {})

Hole == L("?")
Init == t = Hole /\ ann = Preamble /\ done = FALSE   \* the initial state carries the declarations
Pick == /\ ~done
        /\ \E x \in AllTerms :
             /\ t' = x
             /\ ann' = LET an == Annot(x, Env, EmptyFn, <<>>)
                       IN [j \in 1..Len(an) |-> <<an[j][1], an[j][2], SortSx(an[j][2])>>]
        /\ done' = TRUE
Next == Pick
Spec == Init /\ [][Next]_vars

(* sanity properties of the generator and of the typing module itself *)
AllWellSorted == done => \A j \in 1..Len(ann) : ann[j][2] # Ill
SortSxInverse == done => \A j \in 1..Len(ann) : SortVal(ann[j][3], Env) = ann[j][2]
RootFirst == done => Len(ann) >= 1 /\ ann[1][1] = <<>>
=============================================================================
