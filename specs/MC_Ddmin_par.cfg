\* Ddmin parallel mode: 4 atoms, 2 workers, all commands, all schedules
SPECIFICATION Spec
CONSTANTS
  NAtoms = 4
  Workers = {1, 2}
  Par = TRUE
  Shrinks <- NativeShrinks
INVARIANT OutfileAccepted
INVARIANT NoStaleAdoption
INVARIANT FinalIsLast
INVARIANT NoRevisit
INVARIANT OneMinimal
PROPERTY Chain
PROPERTY Termination
