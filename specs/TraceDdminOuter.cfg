INIT TInit
NEXT TNext
CONSTANTS
  N1 <- TN1
  N2 <- TN2
  MaxSize <- TMaxSize
  Growth = TRUE
  Faulty = "none"
