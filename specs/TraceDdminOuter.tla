-------------------------- MODULE TraceDdminOuter --------------------------
(***************************************************************************)
(* Code -> spec: the recorded applications of strategy_ddmin.reduce (one   *)
(* event per _apply_mutator call, with the generators it built) replayed   *)
(* through DdminOuter!Apply.  Total verdict: ACCEPT n / REJECT pos e clause *)
(***************************************************************************)
EXTENDS DdminOuter, Json, IOUtils, TLC

Trace == JsonDeserialize(IOEnv.TRACE)
Ev == Trace.events
TN1 == Len(Trace.stage1)
TN2 == Len(Trace.stage2)
TMaxSize == Trace.maxsize
Order == Trace.stage1 \o Trace.stage2

VARIABLE l
tvars == <<ovars, l>>
E == Ev[l]

(* the generators of one application: the first over all filtered nodes,   *)
(* then granularity halved each time, the last one with granularity 0      *)
GransOK(g, nf) ==
    /\ Len(g) >= 1 /\ g[1] = nf /\ g[Len(g)] = 0
    /\ \A i \in 1..(Len(g) - 1) : g[i] > 0 /\ g[i + 1] = g[i] \div 2

WhyApply ==
  IF pc # "run" THEN "application-after-the-quiet-sweep"
  ELSE IF E.mut # Order[pos] THEN "mutator-out-of-order"
  ELSE IF E.depth # (IF pos <= N1 THEN 1 ELSE 0) THEN "wrong-depth-limit"
  ELSE IF E.nbefore # size THEN "application-not-on-the-current-input"
  ELSE IF E.red # E.nbefore - E.nafter THEN "reduction-miscounted"
  ELSE IF ~GransOK(E.grans, E.nfiltered) THEN "granularity-schedule"
  ELSE "ok"

WhyEnd ==
  IF pc # "done" THEN "reduce-returns-before-a-quiet-sweep"
  ELSE IF E.nresult # size THEN "result-is-not-the-last-input"
  ELSE "ok"

Why == CASE E.e = "apply" -> WhyApply
         [] E.e = "end"   -> WhyEnd
         [] OTHER         -> "unknown-event"

Live == l <= Len(Ev)
IsEvent(e) == Live /\ E.e = e /\ Why = "ok" /\ l' = l + 1

TApply == IsEvent("apply") /\ Apply(E.red)
TEnd   == IsEvent("end") /\ UNCHANGED ovars

TReject == /\ Live /\ Why # "ok"
           /\ PrintT(<<"REJECT", l, E.e, Why>>)
           /\ l' = Len(Ev) + 2 /\ UNCHANGED ovars
TAccept == /\ l = Len(Ev) + 1
           /\ PrintT(<<"ACCEPT", Len(Ev)>>)
           /\ l' = Len(Ev) + 3 /\ UNCHANGED ovars

TInit == /\ size = Trace.size0 /\ pos = 1 /\ sweepRed = 0 /\ cleanRun = 0
         /\ last = <<0, 0>> /\ pc = (IF N = 0 THEN "done" ELSE "run") /\ l = 1
TNext == TApply \/ TEnd \/ TReject \/ TAccept
TSpec == TInit /\ [][TNext]_tvars
=============================================================================
