---------------------------- MODULE MC_GenSubst ----------------------------
EXTENDS GenSubst
LabelsAB  == { <<"a">>, <<"b">> }
LabelsASL == { <<"a">>, <<"set-logic">> }
DeclZ == ListN(200, <<LeafN(201, <<"declare-const">>), LeafN(202, <<"z">>), LeafN(203, <<"S">>)>>)
DeclsNone == { <<>> }
DeclsBoth == { <<>>, <<DeclZ>> }
DeclsOnly == { <<DeclZ>> }
=============================================================================
