\* every in-scope text of length <= 5 over the full class alphabet
SPECIFICATION Spec
CONSTANTS
  Chars = {"LP", "RP", "SP", "TAB", "LF", "CR", "DQ", "BAR", "SEMI", "A", "D", "HASH", "COLON", "MINUS", "BS"}
  MaxLen = 5
  MaxDepth = 2
INVARIANT TypeOK
INVARIANT TokensMatchStructure
INVARIANT NoCharInvented
PROPERTY StructureStable
