\* C11 thorough 4: mixed: forests <= 5 positions over {a,b}, 1 identity key and 1 structural key
INIT GInit
NEXT GNext
CONSTANTS
  Labels <- LabelsAB
  MaxNodes = 5
  MaxDepth = 3
  MaxTop = 2
  ShareOn = FALSE
  MaxIdKeys = 1
  MaxStKeys = 1
  Decls <- DeclsNone
INVARIANT EmptyIsIdentity
INVARIANT ResultTokensAccounted
INVARIANT UntouchedKept
