----------------------------- MODULE GenForest -----------------------------
(***************************************************************************)
(* Generator of forests (lists of s-expression trees) with identities,     *)
(* optionally with sharing (one node object at several positions), built   *)
(* token by token like a reader builds them.  TLC enumerates every forest  *)
(* up to the bounds; the final states (done = TRUE) carry the forest and   *)
(* the observations the SExpr operators predict for it (`obs`), and are    *)
(* replayed into ddsmt.nodes / ddsmt.nodeio by C07, C12 and C13.           *)
(***************************************************************************)
EXTENDS SExpr

CONSTANTS Labels,     \* leaf texts (abstract labels, expanded by the harness)
          MaxNodes,   \* maximal number of positions (leaves + lists)
          MaxDepth,   \* maximal nesting depth (1 = top-level leaves/empty lists only)
          MaxTop,     \* maximal number of top-level expressions
          ShareOn     \* TRUE: a finished node may be inserted again (same identity)

VARIABLES stack,   \* stack[1] = forest under construction, stack[i+1] = open list i
          nid,     \* next identity
          nn,      \* number of positions so far
          done,
          obs      \* observations predicted by SExpr for the final forest

vars == <<stack, nid, nn, done, obs>>

AddTo(st, n) == [st EXCEPT ![Len(st)] = Append(@, n)]
RoomTop      == Len(stack) > 1 \/ Len(stack[1]) < MaxTop

RECURSIVE AllNodes(_)
(* every finished node present anywhere in the structure under construction *)
AllNodes(st) == IF st = <<>> THEN {}
                ELSE {Dfs(Head(st), 0)[i] : i \in 1..Len(Dfs(Head(st), 0))}
                     \cup AllNodes(Tail(st))

Open  == /\ ~done /\ nn < MaxNodes /\ Len(stack) <= MaxDepth /\ RoomTop
         /\ stack' = Append(stack, <<>>)
         /\ nn' = nn + 1
         /\ UNCHANGED <<nid, done, obs>>

Close == /\ ~done /\ Len(stack) > 1
         /\ LET closed == ListN(nid, stack[Len(stack)])
                rest   == SubSeq(stack, 1, Len(stack) - 1)
            IN stack' = AddTo(rest, closed)
         /\ nid' = nid + 1
         /\ UNCHANGED <<nn, done, obs>>

AddLeaf(l) == /\ ~done /\ nn < MaxNodes /\ RoomTop
              /\ stack' = AddTo(stack, LeafN(nid, l))
              /\ nid' = nid + 1 /\ nn' = nn + 1
              /\ UNCHANGED <<done, obs>>

Share(n) == /\ ~done /\ ShareOn /\ RoomTop
            /\ nn + CountNodes(<<n>>) <= MaxNodes
            /\ Len(stack) - 1 + (IF IsLeaf(n) THEN 0 ELSE 1) <= MaxDepth
            /\ stack' = AddTo(stack, n)
            /\ nn' = nn + CountNodes(<<n>>)
            /\ UNCHANGED <<nid, done, obs>>

Observe(f) ==
    [toks   |-> Tokens(f),
     dfs    |-> IdsOf(Dfs(f, 0)),
     dfs1   |-> IdsOf(Dfs(f, 1)),
     dfs2   |-> IdsOf(Dfs(f, 2)),
     bfs    |-> IdsOf(Bfs(f, 0)),
     bfs1   |-> IdsOf(Bfs(f, 1)),
     bfs2   |-> IdsOf(Bfs(f, 2)),
     cn     |-> CountNodes(f),
     ce     |-> CountExprs(f),
     dist   |-> DistinctIds(f),
     clean  |-> {i \in 1..Len(Dfs(f, 0)) : Clean(f, Dfs(f, 0)[i])},
     eq12   |-> IF Len(f) >= 2 THEN StructEq(f[1], f[2]) ELSE TRUE]

Finish == /\ ~done /\ Len(stack) = 1
          /\ done' = TRUE
          /\ obs' = Observe(stack[1])
          /\ UNCHANGED <<stack, nid, nn>>

Init == /\ stack = << <<>> >> /\ nid = 1 /\ nn = 0 /\ done = FALSE /\ obs = <<>>

Next == \/ Open \/ Close \/ Finish
        \/ \E l \in Labels : AddLeaf(l)
        \/ \E n \in AllNodes(stack) : Share(n)

Spec == Init /\ [][Next]_vars

-----------------------------------------------------------------------------
(* Algebra of the reference operators themselves, checked in every state   *)
(* (guards against a vacuous or self-contradictory reference).             *)
F == stack[1]

SameBag(s, t) == /\ Len(s) = Len(t)
                 /\ \A x \in {s[i] : i \in 1..Len(s)} :
                      Cardinality({i \in 1..Len(s) : s[i] = x})
                      = Cardinality({i \in 1..Len(t) : t[i] = x})

TraversalsArePermutations == SameBag(Ids(F), IdsOf(Bfs(F, 0)))
CountsAgree == /\ Len(stack) = 1 => CountNodes(F) = nn
               /\ Len(Tokens(F)) = CountNodes(F) + CountExprs(F)
ReduplicateAlgebra == ReduplicateOK(F, F) <=> DistinctIds(F)
SharingIffDuplicate == (~ShareOn) => DistinctIds(F)
DfsStartsAtFirst == F # <<>> => Dfs(F, 0)[1] = F[1] /\ Bfs(F, 0)[1] = F[1]
DepthLimit == /\ IdsOf(Dfs(F, 1)) = IdsOf(F)
              /\ IdsOf(Bfs(F, 1)) = IdsOf(F)
EqReflexive == \A i \in 1..Len(F) : StructEq(F[i], F[i])

=============================================================================
