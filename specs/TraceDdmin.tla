----------------------------- MODULE TraceDdmin -----------------------------
(***************************************************************************)
(* Code -> spec: is a recorded execution of strategy_ddmin.reduce a        *)
(* behaviour of Ddmin.tla's main thread?  The main-thread action bodies    *)
(* (RecvOn, Succ1Body, Succ2Body, RestartBody) are those of the            *)
(* model-checked specification; inputs are numbered token sequences.       *)
(*                                                                         *)
(* Checked on every event:                                                 *)
(*   round    a new TaskGenerator is built from the CURRENT input, which   *)
(*            is a tree (C13)                                              *)
(*   task     (sequential mode) carries the current input                  *)
(*   recv     the first success of a batch is adopted, later ones are not; *)
(*            an adopted result is one of the candidates the generator     *)
(*            proposed for that task FROM THE CURRENT INPUT (never stale,  *)
(*            C05) and was accepted by the command run on exactly it (C01) *)
(*   stop/update/write  in this order; the updated and the written input   *)
(*            are the adopted candidate; the file reads back as it (C07)   *)
(*   clear/reset  the generator restarts right after the adopted subset    *)
(*   scheck   (sequential mode) candidates are tried in generation order   *)
(*            against the current input; the first accepted one is adopted *)
(*            (C18)                                                        *)
(*   end      the result is the last adopted input                         *)
(***************************************************************************)
EXTENDS Ddmin, Json, IOUtils

Trace == JsonDeserialize(IOEnv.TRACE)
Ev == Trace.events
Checks == {Trace.checks[i] : i \in 1..Len(Trace.checks)}
TShrinks(c, e) == FALSE

VARIABLES l,
          batchTasks,   \* tasks generated since the last (re)start: [id, base, cands]
          cur,          \* sequential mode: current task [id, cands, k] (k = next candidate)
          pendSeq       \* sequential mode: accepted candidate awaiting update/write (0 = none)

tvars == <<vars, l, batchTasks, cur, pendSeq>>

Unlogged == UNCHANGED <<nx, queue, wk, results, subsets, gran, pickled>>
NoCur == [id |-> 0, cands |-> <<>>, k |-> 1]

AcceptedCheck(b, c) == \E k \in Checks : k.base = b /\ k.cand = c /\ k.verdict
InSeq(x, s) == \E i \in 1..Len(s) : s[i] = x

E == Ev[l]
IsAdoption == E.ok /\ ~skip

WhyRound ==
  IF pc # "batch" THEN "round-during-adoption"
  ELSE IF pendSeq # 0 THEN "accepted-candidate-not-written"
  ELSE IF E.base # exprs THEN "round-base-differs-from-adopted-input"
  ELSE IF ~E.distinct THEN "round-base-not-a-tree"
  ELSE "ok"

WhyTask ==
  IF ~E.par /\ E.base # exprs THEN "sequential-task-not-from-current-input"
  ELSE IF ~E.par /\ pendSeq # 0 THEN "accepted-candidate-not-written"
  ELSE "ok"

WhyRecv ==
  IF pc # "batch" THEN "recv-during-adoption"
  ELSE IF IsAdoption /\
          ~\E t \in batchTasks : t.id = E.id /\ t.base = exprs /\ InSeq(E.cand, t.cands)
       THEN "adopted-result-not-a-candidate-of-that-task-from-the-current-input"
  ELSE IF IsAdoption /\ ~AcceptedCheck(exprs, E.cand)
       THEN "adopted-candidate-not-accepted-by-a-check-against-current-input"
  ELSE "ok"

WhyStop   == IF pc # "succ1" THEN "stop-without-adoption" ELSE "ok"
WhyUpdate ==
  IF E.par
  THEN IF pc # "succ2" THEN "update-without-adoption"
       ELSE IF E.base # pend.cand THEN "updated-input-is-not-the-adopted-candidate"
       ELSE "ok"
  ELSE IF pendSeq = 0 THEN "update-without-accepted-candidate"
       ELSE IF E.base # pendSeq THEN "updated-input-is-not-the-accepted-candidate"
       ELSE "ok"
WhyWrite ==
  IF E.par
  THEN IF pc # "succ2" THEN "write-without-adoption"
       ELSE IF E.content # pend.cand THEN "written-content-is-not-the-adopted-candidate"
       ELSE IF E.filetoks # E.content THEN "file-tokens-differ-from-adopted-candidate"
       ELSE "ok"
  ELSE IF pendSeq = 0 THEN "write-without-accepted-candidate"
       ELSE IF E.content # pendSeq THEN "written-content-is-not-the-accepted-candidate"
       ELSE IF E.filetoks # E.content THEN "file-tokens-differ-from-accepted-candidate"
       ELSE "ok"
WhyRecvEnd == IF pc # "batch" THEN "batch-ended-during-adoption" ELSE "ok"
WhyClear == IF pc # "batch" \/ ~abort THEN "clear-without-adoption" ELSE "ok"
(* the generator restarts right after the adopted subset: this is what makes  *)
(* the restart index grow strictly and `while start_index >= 0` end (C03)     *)
WhyReset ==
  IF E.index # startIndex THEN "restart-index-is-not-the-adopted-subset-plus-one"
  ELSE "ok"
WhyScheck ==
  IF pendSeq # 0 THEN "accepted-candidate-not-written"
  ELSE IF E.base # exprs THEN "sequential-check-not-against-current-input"
  ELSE IF cur.k > Len(cur.cands) \/ cur.cands[cur.k] # E.cand
       THEN "sequential-check-out-of-generation-order"
  ELSE "ok"
WhyEnd ==
  IF pc # "batch" \/ pendSeq # 0 THEN "ended-during-adoption"
  ELSE IF E.result # exprs THEN "result-differs-from-last-adopted-input"
  ELSE IF outfile # 0 /\ outfile # exprs THEN "file-differs-from-result"
  ELSE "ok"

Why == CASE E.e = "round"    -> WhyRound
         [] E.e = "task"     -> WhyTask
         [] E.e = "recv"     -> WhyRecv
         [] E.e = "set"      -> "ok"
         [] E.e = "stop"     -> WhyStop
         [] E.e = "update"   -> WhyUpdate
         [] E.e = "write"    -> WhyWrite
         [] E.e = "recv_end" -> WhyRecvEnd
         [] E.e = "clear"    -> WhyClear
         [] E.e = "reset"    -> WhyReset
         [] E.e = "start"    -> "ok"
         [] E.e = "scheck"   -> WhyScheck
         [] E.e = "end"      -> WhyEnd
         [] OTHER            -> "unknown-event"

Live == l <= Len(Ev)
IsEvent(e) == Live /\ E.e = e /\ Why = "ok" /\ l' = l + 1
Same == UNCHANGED <<exprs, index, stopped, abort, skip, startIndex, pend,
                    verdict, outfile, pc, reduced, chain>>

TRound == /\ IsEvent("round")
          /\ batchTasks' = {} /\ cur' = NoCur
          /\ skip' = FALSE /\ abort' = FALSE /\ stopped' = FALSE /\ index' = 0
          /\ UNCHANGED <<exprs, startIndex, pend, verdict, outfile, pc,
                         reduced, chain, pendSeq>>
          /\ Unlogged

TTask == /\ IsEvent("task")
         /\ batchTasks' = batchTasks \cup {[id |-> E.id, base |-> E.base,
                                            cands |-> E.cands]}
         /\ cur' = [id |-> E.id, cands |-> E.cands, k |-> 1]
         /\ Same /\ UNCHANGED pendSeq /\ Unlogged

TRecv == /\ IsEvent("recv")
         /\ RecvOn([id |-> E.id, ok |-> E.ok, cand |-> E.cand, tbase |-> exprs])
         /\ UNCHANGED <<batchTasks, cur, pendSeq>> /\ Unlogged

TSet == IsEvent("set") /\ Same /\ UNCHANGED <<batchTasks, cur, pendSeq>> /\ Unlogged
TStart == IsEvent("start") /\ Same /\ UNCHANGED <<batchTasks, cur, pendSeq>> /\ Unlogged

TStop == /\ IsEvent("stop") /\ Succ1Body
         /\ UNCHANGED <<batchTasks, cur, pendSeq>> /\ Unlogged

TUpdate == IsEvent("update") /\ Same /\ UNCHANGED <<batchTasks, cur, pendSeq>> /\ Unlogged

TWritePar == /\ IsEvent("write") /\ E.par /\ Succ2Body
             /\ UNCHANGED <<batchTasks, cur, pendSeq>>
             /\ UNCHANGED <<nx, queue, wk, results>>

TWriteSeq == /\ IsEvent("write") /\ ~E.par
             /\ exprs' = pendSeq /\ outfile' = pendSeq
             /\ chain' = Append(chain, pendSeq) /\ pendSeq' = 0
             /\ UNCHANGED <<index, stopped, abort, skip, startIndex, pend,
                            verdict, pc, reduced, batchTasks, cur>>
             /\ Unlogged

TRecvEnd == IsEvent("recv_end") /\ Same /\ UNCHANGED <<batchTasks, cur, pendSeq>> /\ Unlogged

TClear == /\ IsEvent("clear") /\ RestartBody
          /\ batchTasks' = {} /\ UNCHANGED <<cur, pendSeq>> /\ Unlogged

TReset == IsEvent("reset") /\ Same /\ UNCHANGED <<batchTasks, cur, pendSeq>> /\ Unlogged

TScheck == /\ IsEvent("scheck")
           /\ pendSeq' = IF E.verdict THEN E.cand ELSE 0
           /\ cur' = IF E.verdict THEN [cur EXCEPT !.k = Len(cur.cands) + 1]
                     ELSE [cur EXCEPT !.k = @ + 1]
           /\ Same /\ UNCHANGED batchTasks /\ Unlogged

TEnd == IsEvent("end") /\ Same /\ UNCHANGED <<batchTasks, cur, pendSeq>> /\ Unlogged

TReject == /\ Live /\ Why # "ok"
           /\ PrintT(<<"REJECT", l, E.e, Why>>)
           /\ l' = Len(Ev) + 2
           /\ Same /\ UNCHANGED <<batchTasks, cur, pendSeq>> /\ Unlogged

TAccept == /\ l = Len(Ev) + 1
           /\ PrintT(<<"ACCEPT", Len(Ev)>>)
           /\ l' = Len(Ev) + 3
           /\ Same /\ UNCHANGED <<batchTasks, cur, pendSeq>> /\ Unlogged

TInit ==
  /\ exprs = Trace.orig /\ pickled = 0 /\ gran = 0 /\ subsets = <<>>
  /\ index = 0 /\ stopped = FALSE /\ abort = FALSE /\ nx = Idle
  /\ queue = <<>> /\ wk = [w \in Workers |-> Idle] /\ results = <<>>
  /\ skip = FALSE /\ startIndex = 0 /\ pend = [id |-> 0, ok |-> FALSE, cand |-> 0, tbase |-> 0]
  /\ verdict = <<>> /\ outfile = 0 /\ pc = "batch" /\ reduced = FALSE
  /\ chain = <<Trace.orig>>
  /\ l = 1 /\ batchTasks = {} /\ cur = NoCur /\ pendSeq = 0

TNext == \/ TRound \/ TTask \/ TRecv \/ TSet \/ TStart \/ TStop \/ TUpdate
         \/ TWritePar \/ TWriteSeq \/ TRecvEnd \/ TClear \/ TReset
         \/ TScheck \/ TEnd \/ TReject \/ TAccept

TSpec == TInit /\ [][TNext]_tvars

TNoStale == NoStaleAdoption
(* C03 on a trace: no input is adopted again after a different one was     *)
(* adopted in between (re-adopting the current input - a subset whose nodes *)
(* are already gone - is stuttering, finite by the partition structure)    *)
TNoRevisit == \A i, j \in 1..Len(chain) :
                 (i < j /\ chain[i] = chain[j]) =>
                    \A k \in i..j : chain[k] = chain[i]

=============================================================================
