------------------------------- MODULE Options ------------------------------
(***************************************************************************)
(* Which mutators are used (C14).                                          *)
(*                                                                         *)
(* State after processing the command line IN ORDER:                       *)
(*   flag[m]  : BOOLEAN, initially TRUE for every mutator                  *)
(*   group[g] : "unset" | "on" | "off", initially "unset"                  *)
(* Options:  <<"mut", m, v>>    --<mutator> / --no-<mutator>               *)
(*           <<"group", g, v>>  --<group> / --no-<group>: sets the group   *)
(*                              and every mutator of the group             *)
(*           <<"all">>          --disable-all: every group off, every      *)
(*                              mutator off                                *)
(* Then automatic theory detection: a group is switched off (with all its  *)
(* mutators) iff the user did not set it ("unset"), the theory has a       *)
(* relevance test, and the input declares nothing of that theory.          *)
(* Every enabled mutator is scheduled: in the last hierarchical pass, and  *)
(* in ddmin except for binary reduction; nothing disabled is ever used.    *)
(*                                                                         *)
(* The registry (mutator -> group, groups with a relevance test) is a      *)
(* parameter: Reg.muts = sequence of [cls, group], Reg.groups = sequence   *)
(* of [name, rel].                                                         *)
(***************************************************************************)
EXTENDS Naturals, Sequences, FiniteSets

MutsOf(reg)      == {reg.muts[i].cls : i \in 1..Len(reg.muts)}
GroupsOf(reg)    == {reg.groups[i].name : i \in 1..Len(reg.groups)}
GroupOf(reg, m)  == (CHOOSE i \in 1..Len(reg.muts) : reg.muts[i].cls = m)
Members(reg, g)  == {reg.muts[i].cls : i \in {j \in 1..Len(reg.muts) : reg.muts[j].group = g}}
HasRel(reg, g)   == \E i \in 1..Len(reg.groups) : reg.groups[i].name = g /\ reg.groups[i].rel

Init0(reg) == [flag  |-> [m \in MutsOf(reg) |-> TRUE],
               group |-> [g \in GroupsOf(reg) |-> "unset"]]

Apply(reg, s, o) ==
  CASE o[1] = "mut"   -> [s EXCEPT !.flag[o[2]] = o[3]]
    [] o[1] = "group" -> [flag  |-> [m \in MutsOf(reg) |->
                                       IF m \in Members(reg, o[2]) THEN o[3]
                                       ELSE s.flag[m]],
                          group |-> [s.group EXCEPT ![o[2]] =
                                       IF o[3] THEN "on" ELSE "off"]]
    [] o[1] = "all"   -> [flag  |-> [m \in MutsOf(reg) |-> FALSE],
                          group |-> [g \in GroupsOf(reg) |-> "off"]]

RECURSIVE ApplySeq(_, _, _)
ApplySeq(reg, s, os) == IF os = <<>> THEN s
                        ELSE ApplySeq(reg, Apply(reg, s, Head(os)), Tail(os))

AutoOff(reg, s, decl) ==
  {g \in GroupsOf(reg) : s.group[g] = "unset" /\ HasRel(reg, g) /\ g \notin decl}

AutoDetect(reg, s, decl) ==
  [flag  |-> [m \in MutsOf(reg) |->
                IF \E g \in AutoOff(reg, s, decl) : m \in Members(reg, g)
                THEN FALSE ELSE s.flag[m]],
   group |-> [g \in GroupsOf(reg) |->
                IF g \in AutoOff(reg, s, decl) THEN "off" ELSE s.group[g]]]

Final(reg, os, decl) == AutoDetect(reg, ApplySeq(reg, Init0(reg), os), decl)
EnabledSet(reg, os, decl) ==
  {m \in MutsOf(reg) : Final(reg, os, decl).flag[m]}
DdminSet(reg, os, decl) == EnabledSet(reg, os, decl) \ {"BinaryReduction"}
=============================================================================
