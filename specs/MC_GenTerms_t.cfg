SPECIFICATION Spec
CONSTANTS
  Depth = 2
  Universe = "full"
INVARIANT AllWellSorted
INVARIANT SortSxInverse
INVARIANT RootFirst
