SPECIFICATION Spec
INVARIANT StatusZeroIffCompleted
INVARIANT NoMinimisationAfterNoMatch
INVARIANT UsageBeforeAnyRun
INVARIANT NoExecBeforeMinimisation
