------------------------------- MODULE SExpr -------------------------------
(***************************************************************************)
(* S-expression trees with node identities, as ddSMT's tree store          *)
(* (nodes.py) is meant to behave.  Pure operators; no state.               *)
(*                                                                         *)
(* A node is a record [id, t, d, k]:                                       *)
(*   id : node identity (Nat; 0 = "no identity", used for shapes)          *)
(*   t  : "L" leaf / "N" list                                              *)
(*   d  : leaf text (any value: a label string or a sequence of chars)     *)
(*   k  : sequence of children (<<>> for leaves)                           *)
(* A forest is a sequence of nodes (the list of top-level s-expressions).  *)
(*                                                                         *)
(* The operators are the *statements* of C07 (Tokens), C11 (Subst,         *)
(* IntroduceVars, ApplySimp), C12 (StructEq, Dfs, Bfs, counts) and C13     *)
(* (DistinctIds, ReduplicateOK); the generator modules evaluate them and   *)
(* the harness compares the real functions with the results.               *)
(***************************************************************************)
EXTENDS Naturals, Sequences, FiniteSets, TLC

LeafN(i, d) == [id |-> i, t |-> "L", d |-> d, k |-> <<>>]
ListN(i, k) == [id |-> i, t |-> "N", d |-> <<>>, k |-> k]

IsLeaf(n) == n.t = "L"

LP == <<"LP">>
RP == <<"RP">>

-----------------------------------------------------------------------------
(* Token sequence (C07, C01): parentheses and leaf texts, left to right.    *)
RECURSIVE TokensN(_), Tokens(_)
TokensN(n) == IF IsLeaf(n) THEN << n.d >>
              ELSE <<LP>> \o Tokens(n.k) \o <<RP>>
Tokens(f)  == IF f = <<>> THEN <<>> ELSE TokensN(Head(f)) \o Tokens(Tail(f))

(* Shape: the tree with identities erased; structural equality (C12).       *)
RECURSIVE ShapeN(_), Shape(_)
ShapeN(n) == IF IsLeaf(n) THEN LeafN(0, n.d) ELSE ListN(0, Shape(n.k))
Shape(f)  == IF f = <<>> THEN <<>> ELSE <<ShapeN(Head(f))>> \o Shape(Tail(f))

StructEq(a, b) == ShapeN(a) = ShapeN(b)

-----------------------------------------------------------------------------
(* Traversals (C12).  max = 0 means "no limit"; otherwise nodes at depth    *)
(* >= max are yielded but not expanded (depth of top-level nodes is 1).     *)
RECURSIVE DfsN(_, _, _), DfsF(_, _, _)
DfsN(n, dep, max) ==
    IF IsLeaf(n) \/ (max # 0 /\ dep >= max) THEN <<n>>
    ELSE <<n>> \o DfsF(n.k, dep + 1, max)
DfsF(f, dep, max) ==
    IF f = <<>> THEN <<>> ELSE DfsN(Head(f), dep, max) \o DfsF(Tail(f), dep, max)
Dfs(f, max) == DfsF(f, 1, max)

(* Breadth first: process a queue of <<depth, node>>. *)
RECURSIVE BfsQ(_, _)
BfsQ(q, max) ==
    IF q = <<>> THEN <<>>
    ELSE LET dep == Head(q)[1]
             n   == Head(q)[2]
             kids == IF IsLeaf(n) \/ (max # 0 /\ dep >= max) THEN <<>>
                     ELSE [i \in 1..Len(n.k) |-> <<dep + 1, n.k[i]>>]
         IN <<n>> \o BfsQ(Tail(q) \o kids, max)
Bfs(f, max) == BfsQ([i \in 1..Len(f) |-> <<1, f[i]>>], max)

IdsOf(s) == [i \in 1..Len(s) |-> s[i].id]

CountNodes(f) == Len(Dfs(f, 0))
CountExprs(f) == Cardinality({i \in 1..Len(Dfs(f, 0)) : ~IsLeaf(Dfs(f, 0)[i])})

(* All identities, with multiplicity, in depth-first order. *)
Ids(f) == IdsOf(Dfs(f, 0))
DistinctIds(f) == \A i, j \in 1..Len(Ids(f)) : i # j => Ids(f)[i] # Ids(f)[j]
IdCount(f, x) == Cardinality({i \in 1..Len(Ids(f)) : Ids(f)[i] = x})

-----------------------------------------------------------------------------
(* Applying a simplification (C11).                                         *)
(*   idm : function  identity -> replacement node | Del                     *)
(*   stm : sequence of <<key shape, replacement node>> (structural keys)    *)
(* One occurrence per identity key is replaced or deleted; every occurrence *)
(* structurally equal to a structural key is replaced; the replacement is   *)
(* inserted as given and is not itself rewritten; everything else stays.    *)
Del == [id |-> 0, t |-> "DEL", d |-> <<>>, k |-> <<>>]

StructRepl(n, stm) ==
    LET hits == {i \in 1..Len(stm) : ShapeN(stm[i][1]) = ShapeN(n)}
    IN IF hits = {} THEN <<FALSE, n>>
       ELSE <<TRUE, stm[CHOOSE i \in hits : \A j \in hits : i <= j][2]>>

RECURSIVE SubstN(_, _, _), SubstF(_, _, _)
(* returns a sequence of 0 or 1 nodes *)
SubstN(n, idm, stm) ==
    IF n.id \in DOMAIN idm
    THEN IF idm[n.id] = Del THEN <<>> ELSE <<idm[n.id]>>
    ELSE LET sr == StructRepl(n, stm)
         IN IF sr[1] THEN (IF sr[2] = Del THEN <<>> ELSE <<sr[2]>>)
            ELSE IF IsLeaf(n) THEN <<n>>
            ELSE LET k2 == SubstF(n.k, idm, stm)
                 IN IF k2 = n.k THEN <<n>>          \* untouched: same node
                    ELSE <<ListN(0, k2)>>           \* rebuilt spine: fresh id
SubstF(f, idm, stm) ==
    IF f = <<>> THEN <<>>
    ELSE SubstN(Head(f), idm, stm) \o SubstF(Tail(f), idm, stm)

(* The same on inputs that are NOT trees (one node object at several        *)
(* positions, as they exist between an accepted sharing step and the next   *)
(* re-duplication): an identity key designates ONE occurrence - the first   *)
(* one met in pre-order outside replaced subtrees - and is consumed by it   *)
(* (nodes.substitute: repl.pop).  `used` = identity keys consumed so far;   *)
(* the result is <<sequence of 0 or 1 nodes, used'>>.  On trees this is     *)
(* SubstN/SubstF (theorem-like invariant ConsumingAgreesOnTrees).           *)
RECURSIVE SubstNC(_, _, _, _), SubstFC(_, _, _, _)
SubstNC(n, idm, stm, used) ==
    IF n.id \in DOMAIN idm /\ n.id \notin used
    THEN <<IF idm[n.id] = Del THEN <<>> ELSE <<idm[n.id]>>, used \cup {n.id}>>
    ELSE LET sr == StructRepl(n, stm)
         IN IF sr[1] THEN <<IF sr[2] = Del THEN <<>> ELSE <<sr[2]>>, used>>
            ELSE IF IsLeaf(n) THEN <<<<n>>, used>>
            ELSE LET r == SubstFC(n.k, idm, stm, used)
                 IN <<IF r[1] = n.k THEN <<n>> ELSE <<ListN(0, r[1])>>, r[2]>>
SubstFC(f, idm, stm, used) ==
    IF f = <<>> THEN <<<<>>, used>>
    ELSE LET a == SubstNC(Head(f), idm, stm, used)
             b == SubstFC(Tail(f), idm, stm, a[2])
         IN <<a[1] \o b[1], b[2]>>
SubstConsuming(f, idm, stm) == SubstFC(f, idm, stm, {})[1]

(* Declarations are inserted after the maximal set-logic/set-info prefix.   *)
IsPrefixCmd(n, prefixHeads) ==
    ~IsLeaf(n) /\ Len(n.k) > 0 /\ IsLeaf(n.k[1]) /\ n.k[1].d \in prefixHeads

RECURSIVE PrefixLen(_, _)
PrefixLen(f, ph) == IF f = <<>> \/ ~IsPrefixCmd(Head(f), ph) THEN 0
                    ELSE 1 + PrefixLen(Tail(f), ph)

IntroduceVars(f, decls, ph) ==
    LET p == PrefixLen(f, ph)
    IN SubSeq(f, 1, p) \o decls \o SubSeq(f, p + 1, Len(f))

-----------------------------------------------------------------------------
(* Re-establishing "identities pairwise distinct" (C13): g is an acceptable *)
(* result of reduplicating f.                                               *)
(* A node is "clean" when neither it nor anything below it carries an       *)
(* identity that occurs twice: such nodes need not be copied and must keep  *)
(* their identity (a parent of a copied child is necessarily rebuilt).      *)
Clean(f, n) == LET sub == DfsN(n, 1, 0)
               IN \A j \in 1..Len(sub) : IdCount(f, sub[j].id) = 1

ReduplicateOK(f, g) ==
    /\ Shape(g) = Shape(f)
    /\ Tokens(g) = Tokens(f)
    /\ DistinctIds(g)
    /\ LET df == Dfs(f, 0)
           dg == Dfs(g, 0)
       IN \A i \in 1..Len(df) : Clean(f, df[i]) => dg[i].id = df[i].id

=============================================================================
