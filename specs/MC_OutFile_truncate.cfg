\* expected to VIOLATE OutComplete: truncate-then-fill (kept to demonstrate that the model discriminates)
SPECIFICATION Spec
CONSTANTS
  Protocol = "truncate"
  K = 2
  Accepted <- NativeAccepted
  Chunks = 2
INVARIANT OutComplete
