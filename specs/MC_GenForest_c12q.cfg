\* C12 quick: all forests <= 6 positions, <= 2 top-level trees, 2 labels, sharing on
SPECIFICATION Spec
CONSTANTS
  Labels <- LabelsAB
  MaxNodes = 6
  MaxDepth = 3
  MaxTop = 2
  ShareOn = TRUE
INVARIANT TraversalsArePermutations
INVARIANT CountsAgree
INVARIANT ReduplicateAlgebra
INVARIANT DfsStartsAtFirst
INVARIANT DepthLimit
INVARIANT EqReflexive
