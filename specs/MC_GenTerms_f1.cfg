SPECIFICATION Spec
CONSTANTS
  Depth = 1
  Universe = "full"
INVARIANT AllWellSorted
INVARIANT SortSxInverse
INVARIANT RootFirst
