SPECIFICATION Spec
CONSTANTS
  MaxEdits = 2
  PairKinds = "deletes"
INVARIANT TypeOK
