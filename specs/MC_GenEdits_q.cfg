SPECIFICATION Spec
CONSTANTS
  MaxEdits = 1
  PairKinds = "deletes"
INVARIANT TypeOK
