\* Hier quick: 3 atoms, 2 workers, all commands, all schedules; safety + liveness
SPECIFICATION Spec
CONSTANTS
  NAtoms = 3
  Workers = {1, 2}
  NPasses = 2
  Orig <- OrigDef
  None <- NoneDef
  TaskList <- NativeTasks
  MaxDepth1 <- NativeDepth1
INVARIANT TypeOK
INVARIANT OutfileAccepted
INVARIANT NoStaleAdoption
INVARIANT FinalIsLast
INVARIANT FixedPoint
INVARIANT LastSweepFull
INVARIANT NoRevisit
PROPERTY Chain
PROPERTY Termination
