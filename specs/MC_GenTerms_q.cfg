SPECIFICATION Spec
CONSTANTS
  Depth = 1
  Universe = "small"
INVARIANT AllWellSorted
INVARIANT SortSxInverse
INVARIANT RootFirst
