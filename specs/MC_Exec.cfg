SPECIFICATION Spec
CONSTANTS
  Limit = 4
  CpuLimit = 4
  MemLimit = 3
INVARIANT TypeOK
INVARIANT TotalTimeBound
INVARIANT KilledIsGone
INVARIANT HangsTimeOut
INVARIANT QuickIsNotTimeout
PROPERTY NoUnboundedWait
