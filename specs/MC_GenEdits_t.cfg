SPECIFICATION Spec
CONSTANTS
  MaxEdits = 2
  PairKinds = "all"
INVARIANT TypeOK
