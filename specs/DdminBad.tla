------------------------------- MODULE DdminBad -----------------------------
(***************************************************************************)
(* Faulty variants of strategy_ddmin._check_par that the properties of     *)
(* Ddmin.tla must REFUTE (the checks require TLC to report the violation). *)
(*                                                                         *)
(*  noskip : a success is adopted although another success of the batch    *)
(*           was adopted already (the `not skip` test is missing): the     *)
(*           later result was computed against the superseded input        *)
(*           -> NoStaleAdoption / Chain (C05)                              *)
(*  lower  : after an adoption, a later-arriving success with a LOWER      *)
(*           subset index is adopted as well                               *)
(*           -> NoStaleAdoption / Chain (C05)                              *)
(***************************************************************************)
EXTENDS Ddmin

CONSTANT Variant

BadRecvOn(r) ==
  /\ pc = "batch"
  /\ IF r.ok /\ (~skip \/ Variant = "noskip"
                 \/ (Variant = "lower" /\ r.id < startIndex - 1))
     THEN abort' = TRUE /\ pend' = r /\ pc' = "succ1"
     ELSE UNCHANGED <<abort, pend, pc>>
  /\ UNCHANGED <<exprs, pickled, subsets, gran, index, stopped, skip,
                 startIndex, verdict, outfile, reduced, chain>>

BadRecv ==
  /\ Par /\ results # <<>>
  /\ BadRecvOn(Head(results))
  /\ results' = Tail(results)
  /\ UNCHANGED <<nx, queue, wk>>

BadNext == \/ GenBegin \/ GenEnd \/ BadRecv \/ Succ1 \/ Succ2 \/ BatchEnd
           \/ SeqStep \/ SeqEnd
           \/ \E w \in Workers : Take(w) \/ Work(w)
BadSpec == Init /\ [][BadNext]_vars
=============================================================================
