\* C07 quick: all forests (no sharing) <= 5 positions, <= 3 top-level, 2 abstract leaf labels
SPECIFICATION Spec
CONSTANTS
  Labels <- LabelsAB
  MaxNodes = 5
  MaxDepth = 3
  MaxTop = 3
  ShareOn = FALSE
INVARIANT TraversalsArePermutations
INVARIANT CountsAgree
INVARIANT SharingIffDuplicate
