---------------------------- MODULE DdminOuter ----------------------------
(***************************************************************************)
(* strategy_ddmin.reduce above the level of one mutator (Ddmin.tla is one  *)
(* _apply_mutator call):                                                   *)
(*   while True:                                                           *)
(*     for mut in passes[0]:            # top-level passes, max_depth = 1  *)
(*         repeat _apply_mutator(mut, exprs, 1) until it reduced nothing   *)
(*     for mut in passes[1]:            # all other passes, once each      *)
(*         _apply_mutator(mut, exprs)                                      *)
(*     if nothing was reduced in this sweep: break                         *)
(* "reduced" is the difference of the number of (non-leaf) expressions; it *)
(* is NEGATIVE for a step that adds declarations, and 0 for a step that    *)
(* only removes leaves.  One application is one action; its effect on the  *)
(* size is nondeterministic (= all commands).                              *)
(***************************************************************************)
EXTENDS Integers, Sequences

CONSTANTS N1,        \* number of top-level passes (stage 1)
          N2,        \* number of other passes (stage 2)
          MaxSize,   \* bound on the expression count explored
          Growth,    \* TRUE: steps that add expressions (declarations) are explored too
          Faulty     \* "none" | "leave-early" | "stop-early": variants TLC must refute

VARIABLES size,      \* expression count of the current input
          pos,       \* pass to apply next: 1..N1 stage 1, N1+1..N1+N2 stage 2
          sweepRed,  \* sum of the reductions of this sweep
          cleanRun,  \* number of consecutive applications that reduced 0, capped at N1+N2
          last,      \* [pos, red] of the last application (<<0, 0>> = none)
          pc         \* "run" | "done"

ovars == <<size, pos, sweepRed, cleanRun, last, pc>>
N == N1 + N2

OInit == /\ size \in 0..MaxSize /\ pos = 1 /\ sweepRed = 0 /\ cleanRun = 0
         /\ last = <<0, 0>> /\ pc = (IF N = 0 THEN "done" ELSE "run")

(* where reduce() goes after an application at `p` that reduced `k` *)
NextPos(p, k) ==
    IF p <= N1 /\ k # 0 /\ Faulty # "leave-early" THEN p ELSE p + 1

Apply(k) ==
    /\ pc = "run"
    /\ size - k \in 0..MaxSize
    /\ size' = size - k
    /\ last' = <<pos, k>>
    /\ cleanRun' = IF k = 0 THEN (IF cleanRun < N THEN cleanRun + 1 ELSE N) ELSE 0
    /\ LET np == NextPos(pos, k)
           sr == sweepRed + k
       IN IF np <= N
          THEN pos' = np /\ sweepRed' = sr /\ pc' = "run"
          ELSE IF sr = 0 \/ (Faulty = "stop-early" /\ k = 0)
               THEN pos' = np /\ sweepRed' = sr /\ pc' = "done"
               ELSE pos' = 1 /\ sweepRed' = 0 /\ pc' = "run"

ONext == \/ \E k \in (IF Growth THEN -MaxSize ELSE 0)..MaxSize : Apply(k)
         \/ (pc = "done" /\ UNCHANGED ovars)
OSpec == OInit /\ [][ONext]_ovars

-----------------------------------------------------------------------------
TypeOK == /\ size \in 0..MaxSize /\ pos \in 1..(N + 1)
          /\ cleanRun \in 0..N /\ pc \in {"run", "done"}

(* a top-level pass is left only after an application that reduced nothing *)
Stage1LeftAtFixpoint ==
    [][(pos <= N1 /\ pos' # pos /\ pc = "run") => last'[2] = 0]_ovars

(* reduce() returns only after a sweep whose reductions sum to zero *)
StopsOnlyAfterQuietSweep ==
    [][(pc = "run" /\ pc' = "done") => sweepRed' = 0]_ovars

(* without growing steps (Growth = FALSE): it returns only when every pass,  *)
(* applied in order to the final input, reduced nothing                      *)
DoneIsFixpoint == pc = "done" => cleanRun = N
=============================================================================
