\* C12 thorough: all forests <= 7 positions, <= 2 top-level trees, 3 labels, sharing on
SPECIFICATION Spec
CONSTANTS
  Labels <- LabelsABC
  MaxNodes = 7
  MaxDepth = 4
  MaxTop = 2
  ShareOn = TRUE
INVARIANT TraversalsArePermutations
INVARIANT CountsAgree
INVARIANT ReduplicateAlgebra
INVARIANT DfsStartsAtFirst
INVARIANT DepthLimit
INVARIANT EqReflexive
