\* C11 thorough 1: identity keys only: forests <= 6 positions over {a,b}, <= 2 identity keys (delete / leaf / tree / existing subtree)
INIT GInit
NEXT GNext
CONSTANTS
  Labels <- LabelsAB
  MaxNodes = 6
  MaxDepth = 3
  MaxTop = 2
  ShareOn = FALSE
  MaxIdKeys = 2
  MaxStKeys = 0
  Decls <- DeclsNone
INVARIANT EmptyIsIdentity
INVARIANT ResultTokensAccounted
INVARIANT UntouchedKept
INVARIANT GroupIsSequential
