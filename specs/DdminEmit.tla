------------------------------ MODULE DdminEmit -----------------------------
(***************************************************************************)
(* Ddmin.tla in sequential mode as a generator of behaviours for the       *)
(* replay into the real strategy (specification -> code, lib/dreplay.py).  *)
(* With one job nothing is scheduled: a behaviour is determined by the     *)
(* command, i.e. by the verdict function TLC chooses lazily.  Every        *)
(* distinct complete behaviour is printed: the chain of adopted inputs and *)
(* the verdicts asked for.  The real counterpart of the model's run is the *)
(* first top-level mutator of ddmin (EraseNode over the assertions,        *)
(* applied again until an application reduces nothing) on an input of      *)
(* NAtoms assertions.                                                      *)
(***************************************************************************)
EXTENDS Ddmin

Accepted == { c \in DOMAIN verdict : verdict[c] }
Rejected == { c \in DOMAIN verdict : ~verdict[c] }

Emit == pc = "done" => PrintT(<<"BEH", chain, Accepted, Rejected, exprs>>)
=============================================================================
