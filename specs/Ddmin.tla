-------------------------------- MODULE Ddmin -------------------------------
(***************************************************************************)
(* strategy_ddmin: _apply_mutator / TaskGenerator / _check_par /           *)
(* _check_seq / _worker for ONE mutator, one action per critical section.  *)
(*                                                                         *)
(* Input = strictly increasing sequence of atoms (a flat list of nodes the *)
(* mutator's filter accepts); the mutator erases nodes.  A granularity     *)
(* round fixes the partition `subsets` of the nodes present at its start;  *)
(* a task is (subset index, the generator's CURRENT base); its candidate   *)
(* is  base \ subset  (identity-keyed deletions still apply after the base *)
(* was updated, C11).                                                      *)
(*                                                                         *)
(* Parallel mode (Par = TRUE, _check_par):                                 *)
(*   generator thread   TaskGenerator.__next__ is TWO steps: GenBegin      *)
(*                      reads `stopped`/`index` and bumps `index`; GenEnd  *)
(*                      reads `pickled` NOW and enqueues - stop()/update() *)
(*                      of the main thread can fall in between;            *)
(*   workers            read the abort flag, check, return;                *)
(*   main thread        Recv (first success and ~skip: set flag), Succ1    *)
(*                      (stop), Succ2 (update, write, start_index, skip),  *)
(*                      BatchEnd (clear, reset(start_index), start; or end *)
(*                      of the granularity round).                         *)
(* Sequential mode (Par = FALSE, _check_seq): one thread, one task at a    *)
(* time.                                                                   *)
(***************************************************************************)
EXTENDS Naturals, Sequences, FiniteSets, TLC, SequencesExt

CONSTANTS NAtoms, Workers, Par,
          Shrinks(_, _)   \* (candidate, current) -> the candidate has fewer s-expressions

Atoms == 1..NAtoms
Asc(S) == SetToSortSeq(S, LAMBDA a, b: a < b)
Orig == Asc(Atoms)
Min2(a, b) == IF a < b THEN a ELSE b
Partition(s, g) ==
  [ k \in 1..((Len(s) + g - 1) \div g) |->
      SubSeq(s, (k - 1) * g + 1, Min2(k * g, Len(s))) ]
Cand(cur, subset) == Asc(Range(cur) \ Range(subset))
None == <<0>>
NativeShrinks(c, e) == Len(c) < Len(e)
Idle == [st |-> "idle"]

VARIABLES exprs,      \* TaskGenerator.exprs: the current accepted input
          pickled,    \* TaskGenerator.pickled_exprs
          subsets, gran, index, stopped,
          abort,      \* the Manager().Event (__abort_flag)
          nx,         \* generator thread inside __next__: idle | mid(id) | exhausted
          queue, wk, results,
          skip, startIndex, pend,   \* locals of _check_par
          verdict, outfile, pc, reduced,
          chain       \* history: adopted inputs

vars == <<exprs, pickled, subsets, gran, index, stopped, abort, nx, queue, wk,
          results, skip, startIndex, pend, verdict, outfile, pc, reduced, chain>>

Init ==
  /\ exprs = Orig /\ pickled = Orig /\ gran = NAtoms
  /\ subsets = Partition(Orig, NAtoms)
  /\ index = 0 /\ stopped = FALSE /\ abort = FALSE /\ nx = Idle
  /\ queue = <<>> /\ wk = [w \in Workers |-> Idle] /\ results = <<>>
  /\ skip = FALSE /\ startIndex = 0 /\ pend = None /\ verdict = <<>>
  /\ outfile = None /\ pc = "batch" /\ reduced = FALSE /\ chain = <<Orig>>

-----------------------------------------------------------------------------
(* parallel mode *)

GenBegin ==
  /\ Par /\ pc \in {"batch", "succ1", "succ2"} /\ nx.st = "idle"
  /\ IF stopped \/ index >= Len(subsets)
     THEN nx' = [st |-> "exhausted"] /\ UNCHANGED index
     ELSE nx' = [st |-> "mid", id |-> index] /\ index' = index + 1
  /\ UNCHANGED <<exprs, pickled, subsets, gran, stopped, abort, queue, wk,
                 results, skip, startIndex, pend, verdict, outfile, pc,
                 reduced, chain>>

GenEnd ==
  /\ Par /\ nx.st = "mid"
  /\ queue' = Append(queue, [id |-> nx.id, sub |-> subsets[nx.id + 1],
                             tbase |-> pickled])
  /\ nx' = Idle
  /\ UNCHANGED <<exprs, pickled, subsets, gran, index, stopped, abort, wk,
                 results, skip, startIndex, pend, verdict, outfile, pc,
                 reduced, chain>>

Take(w) ==
  /\ Par /\ wk[w].st = "idle" /\ queue # <<>>
  /\ wk' = [wk EXCEPT ![w] = [st |-> "got", task |-> Head(queue)]]
  /\ queue' = Tail(queue)
  /\ UNCHANGED <<exprs, pickled, subsets, gran, index, stopped, abort, nx,
                 results, skip, startIndex, pend, verdict, outfile, pc,
                 reduced, chain>>

(* _worker: flag read once at the start; then apply + check *)
Work(w) ==
  /\ Par /\ wk[w].st = "got"
  /\ LET t == wk[w].task
         c == Cand(t.tbase, t.sub) IN
     IF abort
     THEN /\ results' = Append(results, [id |-> t.id, ok |-> FALSE,
                                         cand |-> None, tbase |-> t.tbase])
          /\ UNCHANGED verdict
     ELSE \E v \in (IF c \in DOMAIN verdict THEN {verdict[c]} ELSE BOOLEAN) :
            /\ verdict' = (c :> v) @@ verdict
            /\ results' = Append(results,
                 [id |-> t.id, ok |-> v, cand |-> IF v THEN c ELSE None,
                  tbase |-> t.tbase])
  /\ wk' = [wk EXCEPT ![w] = Idle]
  /\ UNCHANGED <<exprs, pickled, subsets, gran, index, stopped, abort, nx,
                 queue, skip, startIndex, pend, outfile, pc, reduced, chain>>

(* for result in pool.imap_unordered(_worker, taskgen); the bodies are     *)
(* shared with the trace specification (TraceDdmin.tla)                    *)
RecvOn(r) ==
  /\ pc = "batch"
  /\ IF r.ok /\ ~skip
     THEN abort' = TRUE /\ pend' = r /\ pc' = "succ1"    \* __abort_flag.set()
     ELSE UNCHANGED <<abort, pend, pc>>
  /\ UNCHANGED <<exprs, pickled, subsets, gran, index, stopped, skip,
                 startIndex, verdict, outfile, reduced, chain>>

Recv ==
  /\ Par /\ results # <<>>
  /\ RecvOn(Head(results))
  /\ results' = Tail(results)
  /\ UNCHANGED <<nx, queue, wk>>

Succ1Body ==   \* taskgen.stop()
  /\ pc = "succ1" /\ stopped' = TRUE /\ pc' = "succ2"
  /\ UNCHANGED <<exprs, pickled, subsets, gran, index, abort, skip,
                 startIndex, pend, verdict, outfile, reduced, chain>>

Succ1 == Succ1Body /\ UNCHANGED <<nx, queue, wk, results>>

Succ2Body ==   \* taskgen.update(result.exprs); write file; start_index; skip
  /\ pc = "succ2"
  /\ exprs' = pend.cand /\ pickled' = pend.cand /\ outfile' = pend.cand
  /\ chain' = Append(chain, pend.cand)
  /\ reduced' = (reduced \/ Shrinks(pend.cand, exprs))
  /\ startIndex' = pend.id + 1 /\ skip' = TRUE /\ pc' = "batch"
  /\ UNCHANGED <<subsets, gran, index, stopped, abort, pend, verdict>>

Succ2 == Succ2Body /\ UNCHANGED <<nx, queue, wk, results>>

(* if __abort_flag.is_set(): clear; reset(start_index); start() *)
RestartBody ==
  /\ pc = "batch" /\ abort
  /\ abort' = FALSE /\ index' = startIndex /\ stopped' = FALSE
  /\ skip' = FALSE
  /\ UNCHANGED <<exprs, pickled, subsets, gran, reduced, pc, startIndex,
                 pend, verdict, outfile, chain>>

BatchQuiet == /\ nx.st = "exhausted" /\ queue = <<>> /\ results = <<>>
              /\ \A w \in Workers : wk[w].st = "idle"

NextRound ==
  \* reduplicate; gran //= 2; new TaskGenerator over the CURRENT input
  IF gran \div 2 > 0
  THEN /\ gran' = gran \div 2 /\ subsets' = Partition(exprs, gran \div 2)
       /\ index' = 0 /\ stopped' = FALSE /\ skip' = FALSE /\ nx' = Idle
       /\ UNCHANGED <<exprs, pickled, abort, reduced, pc>>
  ELSE IF reduced
       THEN \* fixed point loop: apply the mutator again from the top
            /\ gran' = Len(exprs)
            /\ subsets' = IF Len(exprs) = 0 THEN <<>>
                          ELSE Partition(exprs, Len(exprs))
            /\ index' = 0 /\ stopped' = FALSE /\ skip' = FALSE /\ nx' = Idle
            /\ reduced' = FALSE
            /\ pc' = IF Len(exprs) = 0 THEN "done" ELSE "batch"
            /\ UNCHANGED <<exprs, pickled, abort>>
       ELSE /\ pc' = "done"
            /\ UNCHANGED <<exprs, pickled, subsets, gran, index, stopped,
                           abort, nx, skip, reduced>>

BatchEnd ==
  /\ Par /\ pc = "batch" /\ BatchQuiet
  /\ IF abort
     THEN \* clear, reset(start_index), start(): iterate the generator again
          RestartBody /\ nx' = Idle
     ELSE /\ NextRound
          /\ UNCHANGED <<startIndex, pend, verdict, outfile, chain>>
  /\ UNCHANGED <<queue, wk, results>>

-----------------------------------------------------------------------------
(* sequential mode: for task in taskgen: result = _worker(task); ... *)

SeqStep ==
  /\ ~Par /\ pc = "batch" /\ index < Len(subsets)
  /\ LET c == Cand(exprs, subsets[index + 1]) IN
     \E v \in (IF c \in DOMAIN verdict THEN {verdict[c]} ELSE BOOLEAN) :
       /\ verdict' = (c :> v) @@ verdict
       /\ index' = index + 1
       /\ IF v THEN /\ exprs' = c /\ pickled' = c /\ outfile' = c
                    /\ chain' = Append(chain, c)
                    /\ reduced' = (reduced \/ Shrinks(c, exprs))
               ELSE UNCHANGED <<exprs, pickled, outfile, chain, reduced>>
  /\ UNCHANGED <<subsets, gran, stopped, abort, nx, queue, wk, results, skip,
                 startIndex, pend, pc>>

SeqEnd ==
  /\ ~Par /\ pc = "batch" /\ index >= Len(subsets)
  /\ NextRound
  /\ UNCHANGED <<queue, wk, results, startIndex, pend, verdict, outfile, chain>>

Next == \/ GenBegin \/ GenEnd \/ Recv \/ Succ1 \/ Succ2 \/ BatchEnd
        \/ SeqStep \/ SeqEnd
        \/ \E w \in Workers : Take(w) \/ Work(w)

Spec == Init /\ [][Next]_vars /\ WF_vars(Next)

-----------------------------------------------------------------------------
(* Properties *)

(* C01 *)
OutfileAccepted ==
  outfile # None => outfile = exprs /\ outfile \in DOMAIN verdict /\ verdict[outfile]

(* C05: each change of the file goes from the current input x to x minus   *)
(* one subset of the round's partition (one group of simplifications of    *)
(* the mutator), accepted by the command, computed against x itself.       *)
Chain ==
  [][outfile' # outfile =>
       /\ outfile' \in DOMAIN verdict' /\ verdict'[outfile']
       /\ \E k \in 1..Len(subsets) : outfile' = Cand(exprs, subsets[k])
       /\ Par => (pend.ok /\ pend.tbase = exprs /\ pend.cand = outfile')]_vars

NoStaleAdoption == (pc \in {"succ1", "succ2"}) => pend.tbase = exprs

FinalIsLast == pc = "done" => (outfile = None /\ Len(chain) = 1)
                              \/ outfile = chain[Len(chain)]

(* C03 *)
Termination == <>(pc = "done")
NoRevisit == \A i, j \in 1..Len(chain) : i # j => chain[i] # chain[j]

(* ddmin's own guarantee at the end (1-minimality w.r.t. the mutator):     *)
(* removing any single remaining node was tested and rejected.             *)
OneMinimal ==
  pc = "done" => \A a \in Range(exprs) :
     LET c == Asc(Range(exprs) \ {a}) IN c \in DOMAIN verdict /\ ~verdict[c]

(* C18: sequential mode adopts candidates in subset order; the sequence of *)
(* adopted inputs is a function of the command (no schedule involved):     *)
(* every subset before the current index was tested against the input      *)
(* current at its turn.                                                    *)
SeqDeterministic == ~Par => (queue = <<>> /\ results = <<>> /\ ~abort)

=============================================================================
