SPECIFICATION Spec
INVARIANT Judge
