INIT TInit
NEXT TNext
CONSTANTS
  Workers = {1}
  Orig <- OrigT
  NPasses <- NPassesT
  TaskList <- NoTasks
  MaxDepth1 <- NoDepth
  None <- NoneT
INVARIANT TFinalIsLast
INVARIANT TLastSweepFull
INVARIANT TNoRevisit
