\* C11 thorough 2: declarations and the set-logic/set-info prefix: forests <= 6 positions over {a, set-logic}, <= 3 top-level, one identity key, one declaration
INIT GInit
NEXT GNext
CONSTANTS
  Labels <- LabelsASL
  MaxNodes = 6
  MaxDepth = 2
  MaxTop = 3
  ShareOn = FALSE
  MaxIdKeys = 1
  MaxStKeys = 0
  Decls <- DeclsOnly
INVARIANT EmptyIsIdentity
INVARIANT ResultTokensAccounted
