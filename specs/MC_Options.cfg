SPECIFICATION Spec
CONSTANTS
  MaxLen = 3
INVARIANT ClosedForm
INVARIANT DetectionOnlyDisablesUnsetUndeclared
INVARIANT ExplicitGroupRespected
INVARIANT LastWins
INVARIANT DisableAllThenOne
