\* C11 quick 3: structural keys only: forests <= 5 positions over {a,b}, <= 2 structural keys (leaf / contains own key / contains other key / existing subtree)
INIT GInit
NEXT GNext
CONSTANTS
  Labels <- LabelsAB
  MaxNodes = 5
  MaxDepth = 3
  MaxTop = 2
  ShareOn = FALSE
  MaxIdKeys = 0
  MaxStKeys = 2
  Decls <- DeclsNone
INVARIANT EmptyIsIdentity
INVARIANT ResultTokensAccounted
