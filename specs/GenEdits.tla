------------------------------ MODULE GenEdits ------------------------------
(***************************************************************************)
(* Generator of ill-formed commands for C04, the way delta debugging makes *)
(* them: take a well-formed command (Templates) and erase or replace one   *)
(* or two of its subtrees.  Every declaration / definition / binder form   *)
(* ddSMT collects information from is a template, so that (define-fun f    *)
(* ((x)) Int ..), (declare-datatype D ((mk (sel)))), (let ((v)) ..) ...    *)
(* are reached systematically.  Final states (done = TRUE) are replayed    *)
(* through everything ddSMT runs unguarded in its main process.            *)
(***************************************************************************)
EXTENDS SmtSem

CONSTANT MaxEdits,      \* 1 or 2
         PairKinds      \* "deletes" : second edit is a deletion; "all"

VARIABLES t, edits, done
vars == <<t, edits, done>>

A(h, args) == N(<<L(h)>> \o args)
Ls(ss) == [i \in 1..Len(ss) |-> L(ss[i])]

Templates == <<
  A("declare-const", Ls(<<"c", "Int">>)),
  A("declare-fun", <<L("f"), N(Ls(<<"Int", "Bool">>)), L("Int")>>),
  A("define-fun", <<L("g"), N(<<N(Ls(<<"a", "Int">>)), N(Ls(<<"b", "Bool">>))>>),
                    L("Int"), A("ite", Ls(<<"b", "a", "0">>))>>),
  A("define-fun-rec", <<L("h"), N(<<N(Ls(<<"a", "Int">>))>>), L("Int"),
                        A("h", Ls(<<"a">>))>>),
  A("define-funs-rec", <<N(<<N(<<L("p"), N(<<N(Ls(<<"a", "Int">>))>>), L("Bool")>>)>>),
                         N(<<A("p", Ls(<<"a">>))>>)>>),
  A("declare-datatype", <<L("D"), N(<<N(<<L("mk"), N(Ls(<<"sel", "Int">>))>>),
                                      N(Ls(<<"nil">>))>>)>>),
  A("declare-datatypes", <<N(<<N(Ls(<<"E", "0">>))>>),
                           N(<<N(<<N(Ls(<<"e1">>)),
                                   N(<<L("e2"), N(Ls(<<"s2", "Int">>))>>)>>)>>)>>),
  A("define-sort", <<L("S"), N(<<>>), L("Int")>>),
  A("declare-sort", Ls(<<"U", "0">>)),
  A("assert", <<A("let", <<N(<<N(Ls(<<"v", "1">>)), N(Ls(<<"w", "x">>))>>),
                           A("+", Ls(<<"v", "w">>))>>)>>),
  A("assert", <<A("forall", <<N(<<N(Ls(<<"u", "Int">>)), N(Ls(<<"t", "Bool">>))>>),
                              A("=>", <<L("t"), A(">", Ls(<<"u", "0">>))>>)>>)>>),
  A("assert", <<A("!", <<A(">", Ls(<<"x", "0">>)), L(":named"), L("n1")>>)>>),
  A("assert", <<A("=", <<N(<<N(Ls(<<"_", "extract", "1", "0">>)), L("b")>>),
                         N(<<N(Ls(<<"_", "zero_extend", "1">>)), L("#b1")>>)>>)>>),
  A("assert", <<A("=", <<N(Ls(<<"_", "bv3", "4">>)), L("b")>>)>>),
  A("assert", <<A("str.contains", <<L("s"), A("str.++", <<L("s"), L("\"a\"")>>)>>)>>),
  A("check-sat-assuming", <<N(Ls(<<"y", "x">>))>>),
  A("set-info", Ls(<<":status", "sat">>))
>>

Kids == {L("x"), L("1"), N(<<>>), N(<<L("x")>>), N(<<N(<<>>)>>),
         N(<<N(<<L("x")>>)>>), L("\"s\"")}

(* all paths (sequences of child indices) of a tree, the root excluded *)
RECURSIVE Paths(_)
Paths(n) == IF IsLeaf(n) THEN {}
            ELSE UNION {{<<i>>} \cup {<<i>> \o p : p \in Paths(n.k[i])} :
                          i \in 1..Len(n.k)}

RECURSIVE Edit(_, _, _)
(* e = <<"del">> or <<"rep", kid>> applied at path p of n *)
Edit(n, p, e) ==
    LET i == Head(p)
    IN IF Len(p) = 1 THEN
           IF e[1] = "del"
           THEN N(SubSeq(n.k, 1, i - 1) \o SubSeq(n.k, i + 1, Len(n.k)))
           ELSE N([n.k EXCEPT ![i] = e[2]])
       ELSE N([n.k EXCEPT ![i] = Edit(n.k[i], Tail(p), e)])

EditKinds == {<<"del">>} \cup {<<"rep", kd>> : kd \in Kids}

Init == /\ \E i \in 1..Len(Templates) : t = Templates[i]
        /\ edits = 0 /\ done = FALSE
DoEdit == /\ ~done /\ edits < MaxEdits
          /\ \E p \in Paths(t), e \in EditKinds :
               /\ (edits = 1 /\ PairKinds = "deletes") => e[1] = "del"
               /\ t' = Edit(t, p, e)
          /\ edits' = edits + 1 /\ UNCHANGED done
Finish == ~done /\ edits >= 1 /\ done' = TRUE /\ UNCHANGED <<t, edits>>
Next == DoEdit \/ Finish
Spec == Init /\ [][Next]_vars
TypeOK == edits \in 0..MaxEdits /\ IsList(t)
=============================================================================
