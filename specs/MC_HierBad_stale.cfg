\* expected to be refuted (see HierBad.tla)
SPECIFICATION BadSpec
CONSTANTS
  Variant = "stale"
  NAtoms = 3
  Workers = {1, 2}
  NPasses = 2
  Orig <- OrigDef
  None <- NoneDef
  TaskList <- NativeTasks
  MaxDepth1 <- NativeDepth1
INVARIANT OutfileAccepted
INVARIANT NoStaleAdoption
INVARIANT FixedPoint
INVARIANT LastSweepFull
INVARIANT FirstSuccessAdopted
PROPERTY Chain
