\* DdminOuter.tla: 2 top-level passes, 2 other passes, sizes 0..4, reductions and growth
SPECIFICATION OSpec
CONSTANTS
  N1 = 2
  N2 = 2
  MaxSize = 4
  Growth = TRUE
  Faulty = "none"
INVARIANT TypeOK
PROPERTY Stage1LeftAtFixpoint
PROPERTY StopsOnlyAfterQuietSweep
