SPECIFICATION Spec
CONSTANTS
  MaxArity = 3
INVARIANT TypeOK
