\* C13 quick: all forests with sharing, <= 6 positions, <= 3 top-level trees, 2 labels
SPECIFICATION Spec
CONSTANTS
  Labels <- LabelsAB
  MaxNodes = 6
  MaxDepth = 3
  MaxTop = 3
  ShareOn = TRUE
INVARIANT TraversalsArePermutations
INVARIANT CountsAgree
INVARIANT ReduplicateAlgebra
INVARIANT DfsStartsAtFirst
