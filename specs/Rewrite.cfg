SPECIFICATION Spec
INVARIANT TypeOK
PROPERTY Decreasing
PROPERTY Changes
