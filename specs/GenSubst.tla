------------------------------ MODULE GenSubst -----------------------------
(***************************************************************************)
(* C11 generator: every forest of GenForest (no sharing) together with     *)
(* every simplification from a bounded family:                             *)
(*   - 0..MaxIdKeys identity keys designating pairwise non-nested nodes,   *)
(*     each deleted or replaced by a fresh leaf, a fresh small tree, or an *)
(*     existing subtree of the input (which then occurs twice);            *)
(*   - 0..MaxStKeys structural keys (shapes of subtrees of the input),     *)
(*     each deleted, or replaced by a fresh leaf, by a tree that CONTAINS  *)
(*     ITS OWN KEY,                                                        *)
(*     by a tree that contains the OTHER key, or by an existing subtree;   *)
(*   - with or without a declaration to introduce.                         *)
(* The final state carries the forest, the simplification and the result   *)
(* SExpr!SubstF / IntroduceVars prescribe; the harness replays it into     *)
(* mutator_utils.apply_simp.                                               *)
(***************************************************************************)
EXTENDS GenForest

CONSTANTS MaxIdKeys, MaxStKeys, Decls   \* Decls: set of declaration sequences to try

VARIABLES phase,  \* "build" | "simp"
          simp    \* the chosen simplification (once phase = "simp")

gvars == <<stack, nid, nn, done, obs, phase, simp>>

PrefixHeads == {<<"set-logic">>, <<"set-info">>}

D0 == Dfs(stack[1], 0)
Size(n) == CountNodes(<<n>>)
(* position j lies inside the subtree rooted at position i (i <= j) *)
Inside(i, j) == i <= j /\ j <= i + Size(D0[i]) - 1
NonNested(S) == \A i, j \in S : i # j => ~Inside(i, j)

(* replacement nodes: fresh identities 100, 101, ... *)
FreshLeaf(i)     == LeafN(100 + i, <<"z">>)
FreshTree(i)     == ListN(110 + i, <<LeafN(120 + i, <<"w">>), LeafN(130 + i, <<"z">>)>>)
(* a tree that contains a copy (fresh identities 0 = unspecified) of shape s *)
Around(i, s)     == ListN(140 + i, <<LeafN(150 + i, <<"w">>), s>>)

(* An existing subtree used as a replacement is the SAME object in the      *)
(* implementation (sharing arises); in the model its identities are marked  *)
(* by adding 1000 so that "inserted replacement" and "untouched original"   *)
(* can be told apart in the result (only the latter must keep identity).    *)
RECURSIVE Bump(_)
Bump(n) == IF IsLeaf(n) THEN LeafN(n.id + 1000, n.d)
           ELSE ListN(n.id + 1000, [i \in 1..Len(n.k) |-> Bump(n.k[i])])

IdRepl(kind, i, pos) ==
    CASE kind = "del"  -> Del
      [] kind = "leaf" -> FreshLeaf(i)
      [] kind = "tree" -> FreshTree(i)
      [] kind = "sub"  -> Bump(D0[1])  \* the first top-level expression itself

StRepl(kind, i, key, other) ==
    CASE kind = "del"   -> Del   \* every occurrence of the shape is deleted
      [] kind = "leaf"  -> LeafN(160 + i, <<"z">>)
      [] kind = "own"   -> Around(i, key)
      [] kind = "other" -> Around(i, other)
      [] kind = "sub"   -> Bump(D0[Len(D0)])   \* the last node in pre-order

IdKinds == {"del", "leaf", "tree", "sub"}
StKinds == {"del", "leaf", "own", "other", "sub"}

ShapesOf(S) == {ShapeN(D0[i]) : i \in S}

(* the maps handed to SExpr!SubstF *)
IdMap(s) == [x \in {s.ids[i].id : i \in DOMAIN s.ids} |->
               (CHOOSE r \in {s.ids[i] : i \in DOMAIN s.ids} : r.id = x).repl]
SetToSeq(S) == CHOOSE q \in [1..Cardinality(S) -> S] :
                  \A a, b \in 1..Cardinality(S) : a # b => q[a] # q[b]
StMap(s) == LET recs == {s.sts[i] : i \in DOMAIN s.sts}
                q == SetToSeq(recs)
            IN [i \in 1..Len(q) |-> <<q[i].key, q[i].repl>>]

Result(f, s) ==
    LET r == SubstConsuming(f, IdMap(s), StMap(s))
    IN IF r = f THEN f ELSE IntroduceVars(r, s.decls, PrefixHeads)

Choose ==
    /\ phase = "build" /\ ~done /\ Len(stack) = 1 /\ stack[1] # <<>>
    /\ \E IK \in SUBSET (1..Len(D0)) :
       \E SK \in SUBSET (1..Len(D0)) :
       \E dc \in Decls :
         /\ Cardinality(IK) <= MaxIdKeys /\ Cardinality(SK) <= MaxStKeys
         /\ IK \cup SK # {}
         /\ NonNested(IK)
         \* (inputs with sharing) one key per identity
         /\ \A i, j \in IK : i # j => D0[i].id # D0[j].id
         \* one representative position per structural key shape
         /\ \A i, j \in SK : i # j => ShapeN(D0[i]) # ShapeN(D0[j])
         /\ \A i \in SK : \A j \in 1..Len(D0) :
                ShapeN(D0[j]) = ShapeN(D0[i]) => i <= j
         /\ \E ik \in [IK -> IdKinds] : \E sk \in [SK -> StKinds] :
              /\ \A i \in SK : sk[i] = "other" => Cardinality(SK) = 2
              \* an identity replacement never contains a structural key
              /\ \A i \in IK : ik[i] = "sub" =>
                    \A j \in SK : \A p \in 1..Len(DfsN(D0[1], 1, 0)) :
                        ShapeN(DfsN(D0[1], 1, 0)[p]) # ShapeN(D0[j])
              /\ \A i \in IK : ik[i] = "sub" => ~Inside(1, i)
              /\ LET ikeys == [i \in IK |-> [id |-> D0[i].id, pos |-> i,
                                             kind |-> ik[i],
                                             repl |-> IdRepl(ik[i], i, i)]]
                     other(i) == IF Cardinality(SK) = 2
                                 THEN ShapeN(D0[CHOOSE j \in SK : j # i])
                                 ELSE ShapeN(D0[i])
                     skeys == [i \in SK |-> [key |-> ShapeN(D0[i]), pos |-> i,
                                             kind |-> sk[i],
                                             repl |-> StRepl(sk[i], i,
                                                       ShapeN(D0[i]), other(i))]]
                     sm == [ids |-> ikeys, sts |-> skeys, decls |-> dc]
                 IN /\ simp' = sm
                    /\ obs' = [res  |-> Result(stack[1], sm),
                               toks |-> Tokens(Result(stack[1], sm)),
                               base |-> Tokens(stack[1])]
    /\ phase' = "simp"
    /\ done' = TRUE
    /\ UNCHANGED <<stack, nid, nn>>

GInit == Init /\ phase = "build" /\ simp = <<>>

GNext == \/ (phase = "build" /\ (Open \/ Close \/ \E l \in Labels : AddLeaf(l)
                                  \/ \E n \in AllNodes(stack) : Share(n))
             /\ UNCHANGED <<phase, simp>>)
         \/ Choose

GSpec == GInit /\ [][GNext]_gvars

-----------------------------------------------------------------------------
(* Algebra of the reference (model sanity) *)
R == Result(stack[1], simp)

(* the empty maps change nothing *)
EmptyIsIdentity == SubstF(stack[1], <<>>, <<>>) = stack[1]

(* deleting / replacing never invents tokens other than those of the       *)
(* replacements and declarations: every token of the result is a token of  *)
(* the base, of a replacement, or of a declaration                         *)
TokSet(s) == {s[i] : i \in 1..Len(s)}
ResultTokensAccounted ==
    phase = "simp" =>
      TokSet(Tokens(R)) \subseteq
        TokSet(Tokens(stack[1])) \cup {LP, RP, <<"z">>, <<"w">>}
        \cup UNION {TokSet(Tokens(d)) : d \in Decls}

(* on trees, consuming an identity key changes nothing *)
ConsumingAgreesOnTrees ==
    phase = "simp" /\ DistinctIds(stack[1]) =>
       SubstConsuming(stack[1], IdMap(simp), StMap(simp)) =
          SubstF(stack[1], IdMap(simp), StMap(simp))

(* "the one occurrence carrying a given identity": a single identity key   *)
(* replaced by something new removes exactly one of the positions that     *)
(* carry the identity, however many there are                              *)
OneOccurrencePerKey ==
    phase = "simp" /\ DOMAIN simp.sts = {} /\ simp.decls = <<>>
       /\ Cardinality(DOMAIN simp.ids) = 1 =>
       LET k == simp.ids[CHOOSE i \in DOMAIN simp.ids : TRUE]
       IN k.kind \in {"leaf", "tree"} =>
             IdCount(R, k.id) = IdCount(stack[1], k.id) - 1

(* ddmin applies a GROUP of simplifications of one mutator at once          *)
(* (strategy_ddmin._simp merges their key maps).  For identity keys that     *)
(* designate pairwise non-nested nodes and replacements that are new         *)
(* (deleted, fresh leaf, fresh tree) the group is the same as its members    *)
(* applied one after the other, in either order: this is what makes "one     *)
(* group of simplifications" of C05's chain a well-defined step.             *)
Restrict(m, S) == [x \in S |-> m[x]]
GroupIsSequential ==
    phase = "simp" /\ DOMAIN simp.sts = {} /\ simp.decls = <<>>
       /\ DistinctIds(stack[1]) /\ Cardinality(DOMAIN simp.ids) = 2
       /\ (\A i \in DOMAIN simp.ids : simp.ids[i].kind \in {"del", "leaf", "tree"}) =>
       LET m == IdMap(simp)
           a == CHOOSE x \in DOMAIN m : TRUE
           b == CHOOSE x \in DOMAIN m : x # a
           one(f, k) == SubstConsuming(f, Restrict(m, {k}), <<>>)
       IN /\ Tokens(one(one(stack[1], a), b)) = Tokens(R)
          /\ Tokens(one(one(stack[1], b), a)) = Tokens(R)

(* untouched top-level expressions are the very same nodes *)
UntouchedKept ==
    phase = "simp" /\ simp.decls = <<>> /\ DOMAIN simp.sts = {} =>
       \A t \in 1..Len(stack[1]) :
          (\A i \in DOMAIN simp.ids :
              \A p \in 1..Len(DfsN(stack[1][t], 1, 0)) :
                  DfsN(stack[1][t], 1, 0)[p].id # simp.ids[i].id)
          => \E u \in 1..Len(R) : R[u] = stack[1][t]

=============================================================================
