\* C11 quick 5: inputs with SHARING (one node object at several positions): forests <= 5 positions over {a,b}, <= 2 identity keys; an identity key is consumed by its first occurrence in pre-order
INIT GInit
NEXT GNext
CONSTANTS
  Labels <- LabelsAB
  MaxNodes = 5
  MaxDepth = 3
  MaxTop = 2
  ShareOn = TRUE
  MaxIdKeys = 2
  MaxStKeys = 0
  Decls <- DeclsNone
INVARIANT EmptyIsIdentity
INVARIANT ResultTokensAccounted
INVARIANT UntouchedKept
INVARIANT ConsumingAgreesOnTrees
INVARIANT OneOccurrencePerKey
