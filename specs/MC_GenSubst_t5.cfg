\* C11 thorough 5: inputs with SHARING (one node object at several positions): forests <= 6 positions over {a,b}, <= 2 identity keys; an identity key is consumed by its first occurrence in pre-order
INIT GInit
NEXT GNext
CONSTANTS
  Labels <- LabelsAB
  MaxNodes = 6
  MaxDepth = 3
  MaxTop = 2
  ShareOn = TRUE
  MaxIdKeys = 2
  MaxStKeys = 0
  Decls <- DeclsNone
INVARIANT EmptyIsIdentity
INVARIANT ResultTokensAccounted
INVARIANT UntouchedKept
INVARIANT ConsumingAgreesOnTrees
INVARIANT OneOccurrencePerKey
