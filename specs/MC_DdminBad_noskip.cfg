\* expected to be refuted (see DdminBad.tla)
SPECIFICATION BadSpec
CONSTANTS
  Variant = "noskip"
  NAtoms = 4
  Workers = {1, 2}
  Par = TRUE
  Shrinks <- NativeShrinks
INVARIANT NoStaleAdoption
PROPERTY Chain
