----------------------------- MODULE SemConform -----------------------------
(***************************************************************************)
(* Code -> spec conformance for C16 and C17: what the real ddSMT inferred  *)
(* (sorts, widths) and proposed (rewrites documented as identities) is     *)
(* judged by TLC against SmtSem!SortOf and SmtEval!Eval.                   *)
(*                                                                         *)
(* The harness writes a JSON array of cases (environment variable CASES).  *)
(* S-expressions are {"s": text} / {"k": [...]}.  TLC walks the array (one *)
(* state per case, -workers 1) and prints one line per case                *)
(*     <<"V", cid, verdict, detail>>                                       *)
(*                                                                         *)
(* kinds                                                                   *)
(*  "sort": script, recs = [[path, claimed sort | {"none":1}, width]...]   *)
(*     For every rec whose path is a term position with a known sort s of  *)
(*     a script in which every symbol is bound once: the claimed sort is   *)
(*     absent or denotes s; the claimed width is -1 or the width of s.     *)
(*     verdict "ok" (detail = number of recs judged), "skip-notbound1",    *)
(*     "bad" (detail = <<indices with a wrong sort, with a wrong width>>). *)
(*  "equiv": script, props = [[path, replacement] ...] (path of the        *)
(*     replaced term; length 1 = a whole define-fun command).  Same sort;  *)
(*     same value under every assignment of the free constants and of the  *)
(*     variables bound around the position.  verdict "list", detail = one  *)
(*     <<"ok" | "sort" | "value" | "skip-...", info>> per proposal.        *)
(*  "sortsyn": script, orig, repl: two sort expressions denote one sort.   *)
(*  "samesort": script, props = [[path, replacement, fresh decls] ...]:    *)
(*     each replacement has the sort of the term at path it replaces.      *)
(***************************************************************************)
EXTENDS SmtEval, Json, IOUtils

Cases == JsonDeserialize(IOEnv.CASES)

VARIABLE i
cvars == <<i>>

IsNone(x) == "none" \in DOMAIN x

-----------------------------------------------------------------------------
(* every declared / defined / bound symbol is bound exactly once            *)
RECURSIVE BindersT(_), BindersSeq(_, _)
BindersSeq(ks, j) == IF j > Len(ks) THEN <<>>
                     ELSE BindersT(ks[j]) \o BindersSeq(ks, j + 1)
BindersT(t) ==
    IF IsLeaf(t) THEN <<>>
    ELSE LET h == HeadSym(t)
             own == IF h \in {"let", "forall", "exists"} /\ Len(t.k) >= 2
                       /\ IsList(t.k[2])
                    THEN [j \in 1..Len(t.k[2].k) |->
                            IF IsList(t.k[2].k[j]) /\ Len(t.k[2].k[j].k) >= 1
                               /\ IsLeaf(t.k[2].k[j].k[1])
                            THEN t.k[2].k[j].k[1].s ELSE ""]
                    ELSE <<>>
         IN own \o BindersSeq(t.k, 1)
BindersC(c) ==
    LET h == HeadSym(c)
        nm == IF h \in {"declare-const", "declare-fun", "define-fun",
                        "define-fun-rec", "declare-sort", "define-sort",
                        "declare-datatype"}
                 /\ Len(c.k) >= 2 /\ IsLeaf(c.k[2])
              THEN <<c.k[2].s>> ELSE <<>>
        ps == IF h \in {"define-fun", "define-fun-rec"} /\ Len(c.k) = 5
                 /\ IsSortedVarList(c.k[3])
              THEN [j \in 1..Len(c.k[3].k) |-> c.k[3].k[j].k[1].s] ELSE <<>>
    IN IF IsLeaf(c) THEN <<>> ELSE nm \o ps \o BindersSeq(c.k, 1)
RECURSIVE BindersS(_, _)
BindersS(script, j) == IF j > Len(script) THEN <<>>
                       ELSE BindersC(script[j]) \o BindersS(script, j + 1)
BoundOnce(script) ==
    LET b == BindersS(script, 1)
        env == EnvOf(script)
        extra == DOMAIN env.ctors \cup DOMAIN env.sels
    IN /\ \A x, y \in 1..Len(b) : x # y => b[x] # b[y]
       /\ \A x \in 1..Len(b) : b[x] \notin extra

-----------------------------------------------------------------------------
(* kind "sort"                                                              *)
LookupPath(an, p) ==
    LET hits == {j \in 1..Len(an) : an[j][1] = p}
    IN IF hits = {} THEN <<"none">> ELSE an[CHOOSE j \in hits : TRUE][2]

VerdictSort(c) ==
    LET script == c.script
        env == EnvOf(script)
        an == AnnotScriptFrom(script, env, 1)
        truth(r) == LookupPath(an, r[1])
        judged == {j \in 1..Len(c.recs) :
                     truth(c.recs[j]) # <<"none">> /\ truth(c.recs[j]) # Ill}
        badsort == {j \in judged :
                      /\ ~IsNone(c.recs[j][2])
                      /\ SortVal(c.recs[j][2], env) # truth(c.recs[j])}
        badwidth == {j \in judged :
                       /\ c.recs[j][3] # -1
                       /\ ~(IsBV(truth(c.recs[j]))
                            /\ truth(c.recs[j])[2] = c.recs[j][3])}
    IN IF ~BoundOnce(script) THEN <<"skip-notbound1", 0>>
       ELSE IF badsort # {} \/ badwidth # {} THEN <<"bad", <<badsort, badwidth>>>>
       ELSE <<"ok", Cardinality(judged)>>

-----------------------------------------------------------------------------
(* kind "equiv"                                                             *)
FreeConsts(env) == {x \in DOMAIN env.funs :
                      env.funs[x].ps = <<>> /\ x \notin DOMAIN env.defs}

(* the domain used for the assignment of a free constant: complete for few *)
(* constants, thinned out when there are many                              *)
Thin(S, k) == IF Cardinality(S) <= k THEN S
              ELSE LET RECURSIVE Pick(_, _)
                       Pick(T, m) == IF m = 0 \/ T = {} THEN {}
                                     ELSE LET x == CHOOSE y \in T : TRUE
                                          IN {x} \cup Pick(T \ {x}, m - 1)
                   IN Pick(S, k)
AsgDomain(s, env, nfree) ==
    LET d == Domain(s, env)
    IN IF nfree <= 3 THEN d
       ELSE IF IsBV(s) THEN
                {VV(s[2], n) : n \in {0, 1, Pow2(s[2]) - 1, Pow2(s[2] - 1)}}
       ELSE IF nfree <= 5 THEN Thin(d, 3) ELSE Thin(d, 2)

(* all assignments (functions name -> value) of the enumerable free consts *)
RECURSIVE FunProd(_, _)
FunProd(names, dom) ==
    IF names = {} THEN {EmptyFn}
    ELSE LET x == CHOOSE y \in names : TRUE
         IN {(x :> v) @@ f : v \in dom[x], f \in FunProd(names \ {x}, dom)}

(* leaf texts of a term / of all definition bodies of a script            *)
RECURSIVE LeafTexts(_), LeafTextsSeq(_, _)
LeafTextsSeq(ks, j) == IF j > Len(ks) THEN {}
                       ELSE LeafTexts(ks[j]) \cup LeafTextsSeq(ks, j + 1)
LeafTexts(t) == IF IsLeaf(t) THEN {t.s} ELSE LeafTextsSeq(t.k, 1)
DefBodyTexts(env) == UNION {LeafTexts(env.defs[f].body) : f \in DOMAIN env.defs}

(* only constants that can influence the value are assigned: those        *)
(* mentioned in `rel` (leaf texts of the command around the position, of  *)
(* the replacement and of every definition body)                          *)
Assignments(env, rel) ==
    LET fc == FreeConsts(env) \cap rel
        dom == [x \in fc |-> AsgDomain(env.funs[x].r, env, Cardinality(fc))]
        en == {x \in fc : dom[x] # {}}
    IN FunProd(en, dom)

(* Walk from node t along `rest`; ls = local sorts, lvs = set of local     *)
(* value environments (all assignments extended by the binders passed).    *)
RECURSIVE Walk(_, _, _, _, _)
Walk(t, rest, env, ls, lvs) ==
    IF rest = <<>> THEN [t |-> t, ls |-> ls, lvs |-> lvs]
    ELSE
    LET j == Head(rest)
        h == HeadSym(t)
    IN IF h = "let" /\ j = 3 /\ Len(t.k) = 3 /\ IsList(t.k[2]) THEN
           LET bs == t.k[2].k
               names == {bs[m].k[1].s : m \in 1..Len(bs)}
               tm(x) == (CHOOSE b \in {bs[m] : m \in 1..Len(bs)} : b.k[1].s = x).k[2]
               ls2 == [x \in names |-> SortOf(tm(x), env, ls)] @@ ls
               lvs2 == {[x \in names |-> Eval(tm(x), env, lv)] @@ lv : lv \in lvs}
           IN Walk(t.k[3], Tail(rest), env, ls2, lvs2)
       ELSE IF h \in {"forall", "exists"} /\ j = 3 /\ Len(t.k) = 3
               /\ IsSortedVarList(t.k[2]) THEN
           LET bs == t.k[2].k
               names == {bs[m].k[1].s : m \in 1..Len(bs)}
               so(x) == SortVal((CHOOSE b \in {bs[m] : m \in 1..Len(bs)} :
                                   b.k[1].s = x).k[2], env)
               ls2 == [x \in names |-> so(x)] @@ ls
               dom == [x \in names |-> Domain(so(x), env)]
               lvs2 == {f @@ lv : f \in FunProd(names, dom), lv \in lvs}
           IN Walk(t.k[3], Tail(rest), env, ls2, lvs2)
       ELSE Walk(t.k[j], Tail(rest), env, ls, lvs)

(* context of a position <<ci, ...>> of the script *)
ContextAt(script, path, env, repl) ==
    LET c == script[path[1]]
        asg == Assignments(env, LeafTexts(c) \cup LeafTexts(repl)
                                \cup DefBodyTexts(env))
    IN IF HeadSym(c) \in {"define-fun", "define-fun-rec"} /\ Len(c.k) = 5
          /\ IsSortedVarList(c.k[3]) /\ Len(path) >= 2 /\ path[2] = 5 THEN
           LET bs == c.k[3].k
               names == {bs[m].k[1].s : m \in 1..Len(bs)}
               so(x) == SortVal((CHOOSE b \in {bs[m] : m \in 1..Len(bs)} :
                                   b.k[1].s = x).k[2], env)
               dom == [x \in names |-> Domain(so(x), env)]
           IN Walk(c.k[5], SubSeq(path, 3, Len(path)), env,
                   [x \in names |-> so(x)],
                   {f @@ a : f \in FunProd(names, dom), a \in asg})
       ELSE Walk(c, Tail(path), env, EmptyFn, asg)

JudgePair(orig, repl, cx, env) ==
    LET so == SortOf(orig, env, cx.ls)
        sr == SortOf(repl, env, cx.ls)
        prs == {<<Eval(orig, env, lv), Eval(repl, env, lv), lv>> : lv \in cx.lvs}
        both == {p \in prs : p[1] # Unk /\ p[2] # Unk}
        diff == {p \in both : p[1] # p[2]}
    IN IF so = Ill THEN <<"skip-illsorted", 0>>
       ELSE IF sr # so THEN <<"sort", <<so, sr>>>>
       ELSE IF diff # {} THEN <<"value", CHOOSE p \in diff : TRUE>>
       ELSE IF both = {} THEN <<"skip-unevaluable", Cardinality(prs)>>
       ELSE IF both # prs THEN <<"ok-partial", Cardinality(both)>>
       ELSE <<"ok", Cardinality(both)>>

(* one proposal: p = [path, replacement] *)
EquivOne(script, env, p) ==
    IF Len(p[1]) = 1 THEN
        \* a define-fun command replaced by another define-fun of the
        \* same name, parameters and sort: compare the bodies
        LET o == script[p[1][1]]
            r == p[2]
        IN IF HeadSym(o) = "define-fun" /\ IsList(r) /\ HeadSym(r) = "define-fun"
              /\ Len(o.k) = 5 /\ Len(r.k) = 5
              /\ o.k[2] = r.k[2] /\ o.k[3] = r.k[3]
           THEN IF SortVal(o.k[4], env) # SortVal(r.k[4], env)
                   \/ SortVal(o.k[4], env) = Ill
                THEN <<"sort", <<SortVal(o.k[4], env), SortVal(r.k[4], env)>>>>
                ELSE JudgePair(o.k[5], r.k[5],
                               ContextAt(script, <<p[1][1], 5>>, env, r), env)
           ELSE <<"skip-command", 0>>
    ELSE LET cx == ContextAt(script, p[1], env, p[2])
         IN JudgePair(cx.t, p[2], cx, env)

(* props = [[path, replacement] ...]; detail = one verdict per proposal *)
VerdictEquiv(c) ==
    LET env == EnvOf(c.script)
    IN <<"list", [j \in 1..Len(c.props) |-> EquivOne(c.script, env, c.props[j])]>>

VerdictSortSyn(c) ==
    LET env == EnvOf(c.script)
        a == SortVal(c.orig, env)
        b == SortVal(c.repl, env)
    IN IF a = Ill THEN <<"skip-illsorted", 0>>
       ELSE IF a # b THEN <<"sort", <<a, b>>>> ELSE <<"ok", 1>>

-----------------------------------------------------------------------------
(* kind "samesort" (the consumers of C16): a proposal replaced the term at  *)
(* `path` of `script`, giving `script2` with the replacement at `path2`;    *)
(* the replacement must have the sort of the replaced term.  Every symbol   *)
(* is bound once, so for this judgement every bound variable is made        *)
(* visible everywhere with its sort: whether a variable is used inside its  *)
(* scope is not a matter of sort inference.                                 *)
RECURSIVE AllNodes(_, _), AllNodesSeq(_, _, _)
AllNodesSeq(ks, path, j) ==
    IF j > Len(ks) THEN <<>>
    ELSE AllNodes(ks[j], Append(path, j)) \o AllNodesSeq(ks, path, j + 1)
AllNodes(t, path) == IF IsLeaf(t) THEN << <<path, t>> >>
                     ELSE << <<path, t>> >> \o AllNodesSeq(t.k, path, 1)

BinderSorts(script, env) ==
    LET an == AnnotScriptFrom(script, env, 1)
        ns == AllNodesSeq(script, <<>>, 1)
        lets == {j \in 1..Len(ns) :
                   /\ HeadSym(ns[j][2]) = "let" /\ Len(ns[j][2].k) = 3
                   /\ LookupPath(an, ns[j][1]) \notin {<<"none">>, Ill}}
        letb == UNION {{<<ns[j][2].k[2].k[m].k[1].s,
                          LookupPath(an, ns[j][1] \o <<2, m, 2>>)>> :
                          m \in 1..Len(ns[j][2].k[2].k)} : j \in lets}
        qs == {j \in 1..Len(ns) :
                 /\ HeadSym(ns[j][2]) \in {"forall", "exists", "define-fun",
                                           "define-fun-rec"}
                 /\ Len(ns[j][2].k) >= 3
                 /\ LET bl == IF HeadSym(ns[j][2]) \in {"forall", "exists"}
                              THEN ns[j][2].k[2] ELSE ns[j][2].k[3]
                    IN IsSortedVarList(bl)}
        qb == UNION {LET bl == IF HeadSym(ns[j][2]) \in {"forall", "exists"}
                               THEN ns[j][2].k[2] ELSE ns[j][2].k[3]
                     IN {<<bl.k[m].k[1].s, SortVal(bl.k[m].k[2], env)>> :
                           m \in 1..Len(bl.k)} : j \in qs}
        all == letb \cup qb
    IN [x \in {b[1] : b \in all} |-> (CHOOSE b \in all : b[1] = x)[2]]

(* sort of the term at `path` with every binder of the script visible *)
RECURSIVE NodeAt(_, _)
NodeAt(t, rest) == IF rest = <<>> THEN t ELSE NodeAt(t.k[Head(rest)], Tail(rest))
SortAtOpen(script, env, path) ==
    SortOf(NodeAt(script[path[1]], Tail(path)), env, BinderSorts(script, env))

(* props = [[path, replacement, <<fresh declarations>>] ...]; the sort of  *)
(* a replacement does not depend on its position once every binder is      *)
(* visible; fresh (declare-const n S) commands extend the environment.      *)
VerdictSameSort(c) ==
    LET env == EnvOf(c.script)
        an == AnnotScriptFrom(c.script, env, 1)
        bs == BinderSorts(c.script, env)
        s1(p) == LookupPath(an, p[1])
        envOf(p) == EnvFrom(p[3], 1, env)
        s2(p) == SortOf(p[2], envOf(p), bs)
        judged == {j \in 1..Len(c.props) :
                     s1(c.props[j]) \notin {<<"none">>, Ill}}
        bad == {j \in judged : s2(c.props[j]) # s1(c.props[j])}
    IN IF ~BoundOnce(c.script) THEN <<"skip-notbound1", 0>>
       ELSE IF bad # {} THEN
           <<"bad", {<<j, s1(c.props[j]), s2(c.props[j])>> : j \in bad}>>
       ELSE <<"ok", Cardinality(judged)>>

Verdict(c) == CASE c.kind = "sort" -> VerdictSort(c)
                [] c.kind = "samesort" -> VerdictSameSort(c)
                [] c.kind = "equiv" -> VerdictEquiv(c)
                [] c.kind = "sortsyn" -> VerdictSortSyn(c)
                [] OTHER -> <<"unknown-kind", 0>>

Init == i = 0
Next == i < Len(Cases) /\ i' = i + 1
Spec == Init /\ [][Next]_cvars

Judge == i > 0 => LET v == Verdict(Cases[i])
                  IN PrintT(<<"V", Cases[i].cid, v[1], v[2]>>)

=============================================================================
