\* Ddmin parallel mode: 5 atoms, 3 workers, all commands, all schedules
SPECIFICATION Spec
CONSTANTS
  NAtoms = 5
  Workers = {1, 2, 3}
  Par = TRUE
  Shrinks <- NativeShrinks
INVARIANT OutfileAccepted
INVARIANT NoStaleAdoption
INVARIANT FinalIsLast
INVARIANT NoRevisit
INVARIANT OneMinimal
PROPERTY Chain
PROPERTY Termination
