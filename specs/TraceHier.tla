------------------------------ MODULE TraceHier -----------------------------
(***************************************************************************)
(* Code -> spec: is a recorded execution of strategy_hierarchical.reduce   *)
(* a behaviour of Hier.tla's main loop?                                    *)
(*                                                                         *)
(* The recorded run (launcher events, converted by lib/traceconv.py;       *)
(* inputs are numbered by token sequence, 0 = none) is replayed through    *)
(* the SAME action bodies as the model-checked specification               *)
(* (SweepStartBody, MainRecvOn, SweepEndBody of Hier.tla); every logged    *)
(* field is compared with the value the specification predicts:            *)
(*   sweep     base, skip, mutator set of the pass, base is a tree (C13)   *)
(*   task      produced in the current sweep beyond skip                   *)
(*   recv      flag value read by the main loop; an adopted success must   *)
(*             be a task of the CURRENT sweep (never stale, C05) and the   *)
(*             command must have been run on exactly that candidate,       *)
(*             derived from the current base, and have accepted it (C01);  *)
(*             with one job it must be the first accepted task (C18)       *)
(*   write     content = adopted candidate = tokens read back from the     *)
(*             file (C07), written list is a tree                          *)
(*   end       only after a sweep that started at node 0 on the final      *)
(*             input and found nothing (C02); result = base                *)
(* Worker- and producer-internal steps are not logged and are not part of  *)
(* the trace specification (their variables keep their initial values).    *)
(* The verdict is total: a rejected trace prints the position and the      *)
(* name of the failing clause.                                             *)
(***************************************************************************)
EXTENDS Hier, Json, IOUtils

Trace == JsonDeserialize(IOEnv.TRACE)
Ev == Trace.events
Checks == {Trace.checks[i] : i \in 1..Len(Trace.checks)}

OrigT == Trace.orig
NPassesT == Len(Trace.passes)
NoTasks(b, p) == <<>>
NoDepth(p) == FALSE
NoneT == 0

VARIABLES l,            \* position in the trace
          sweepTasks,   \* tasks produced in the current sweep: <<tseq, node, cand>>
          pendingWrite  \* candidate adopted, write event still to come (0 = none)

tvars == <<vars, l, sweepTasks, pendingWrite>>

Unlogged == UNCHANGED <<gen, queue, wk, results>>

AcceptedCheck(b, c) == \E k \in Checks : k.base = b /\ k.cand = c /\ k.verdict
RejectedCheck(b, c) == \E k \in Checks : k.base = b /\ k.cand = c /\ ~k.verdict

E == Ev[l]

WhySweep ==
  IF pc # "sweepstart" THEN "sweep-while-results-pending"
  ELSE IF E.base # base THEN "sweep-base-differs-from-adopted-input"
  ELSE IF E.skip # skip THEN "sweep-skip-not-adjusted"
  ELSE IF E.muts # Trace.passes[passid] THEN "sweep-mutators-differ-from-pass"
  ELSE IF ~E.distinct THEN "sweep-base-not-a-tree"
  ELSE "ok"

WhyTask ==
  IF pc # "loop" THEN "task-outside-sweep"
  ELSE IF E.node <= hist.sweepSkip THEN "task-for-skipped-node"
  ELSE "ok"

IsAdoption == ~abort /\ E.ok

TaskOf(node, cand) == {t \in sweepTasks : t[2] = node /\ t[3] = cand}

WhyRecv ==
  IF pc # "loop" THEN "recv-outside-sweep"
  ELSE IF pendingWrite # 0 THEN "adoption-not-written-to-file"
  ELSE IF E.flag # 2 /\ (E.flag = 1) # abort THEN "recv-flag-value-differs"
  ELSE IF IsAdoption /\ TaskOf(E.node, E.cand) = {}
       THEN "adopted-result-is-not-a-task-of-the-current-sweep"
  ELSE IF IsAdoption /\ ~AcceptedCheck(base, E.cand)
       THEN "adopted-candidate-not-accepted-by-a-check-against-current-base"
  ELSE IF IsAdoption /\ Trace.jobs = 1 /\
          \E t \in sweepTasks :
             /\ \E a \in TaskOf(E.node, E.cand) : t[1] < a[1]
             /\ ~RejectedCheck(base, t[3])
       THEN "sequential-run-adopted-a-later-task-before-an-untested-earlier-one"
  ELSE "ok"

WhyWrite ==
  IF pendingWrite = 0 THEN "write-without-adoption"
  ELSE IF E.content # pendingWrite THEN "written-content-is-not-the-adopted-candidate"
  ELSE IF E.filetoks # E.content THEN "file-tokens-differ-from-adopted-candidate"
  ELSE IF ~E.distinct THEN "written-input-not-a-tree"
  ELSE "ok"

WhySweepEnd ==
  IF pc # "loop" THEN "sweepend-outside-sweep"
  ELSE IF pendingWrite # 0 THEN "adoption-not-written-to-file"
  ELSE "ok"

WhyEnd ==
  IF pc # "done" /\ ~(NPassesT = 0 /\ pc = "sweepstart")
  THEN "terminated-without-a-full-unsuccessful-sweep-of-the-last-pass"
  ELSE IF E.result # base THEN "result-differs-from-last-adopted-input"
  ELSE IF outfile # 0 /\ outfile # base THEN "file-differs-from-result"
  ELSE "ok"

Why == CASE E.e = "sweep"    -> WhySweep
         [] E.e = "task"     -> WhyTask
         [] E.e = "recv"     -> WhyRecv
         [] E.e = "write"    -> WhyWrite
         [] E.e = "recv_end" -> WhySweepEnd
         [] E.e = "end"      -> WhyEnd
         [] OTHER            -> "unknown-event"

Live == l <= Len(Ev)
IsEvent(e) == Live /\ E.e = e /\ Why = "ok" /\ l' = l + 1

TSweep == /\ IsEvent("sweep") /\ SweepStartBody
          /\ sweepTasks' = {} /\ UNCHANGED pendingWrite /\ Unlogged

(* Named deviations (silent steps).  `skip` and `fresh_run` are bookkeeping *)
(* of the implementation that no listed property constrains directly: a    *)
(* sweep may start at any node, and a pass may also be left after an       *)
(* unsuccessful sweep that started at node 0 even if the flag `fresh` was  *)
(* not set.  What the properties need - the LAST sweep starts at node 0 on *)
(* the final input and finds nothing - is checked at the end event.        *)
TAdjustSkip == /\ Live /\ E.e = "sweep" /\ pc = "sweepstart" /\ E.skip # skip
               /\ E.skip >= 0
               /\ skip' = E.skip
               /\ UNCHANGED <<base, passid, fresh, reduction, abort, gen, queue,
                              wk, results, verdict, outfile, pc, hist, l,
                              sweepTasks, pendingWrite>>

TFreshen == /\ Live /\ E.e = "recv_end" /\ pc = "loop" /\ ~fresh /\ ~reduction
            /\ hist.sweepSkip = 0
            /\ fresh' = TRUE
            /\ UNCHANGED <<base, passid, skip, reduction, abort, gen, queue,
                           wk, results, verdict, outfile, pc, hist, l,
                           sweepTasks, pendingWrite>>

TTask == /\ IsEvent("task")
         /\ sweepTasks' = sweepTasks \cup {<<E.tseq, E.node, E.cand>>}
         /\ UNCHANGED <<vars, pendingWrite>>

TRecv == /\ IsEvent("recv")
         /\ MainRecvOn([seq |-> 0, node |-> E.node, ok |-> E.ok, cand |-> E.cand])
         /\ pendingWrite' = IF IsAdoption THEN E.cand ELSE 0
         /\ UNCHANGED sweepTasks /\ Unlogged

TWrite == /\ IsEvent("write")
          /\ pendingWrite' = 0
          /\ UNCHANGED <<vars, sweepTasks>>

TSweepEnd == /\ IsEvent("recv_end") /\ SweepEndBody
             /\ UNCHANGED <<sweepTasks, pendingWrite>> /\ Unlogged

TEnd == /\ IsEvent("end")
        /\ UNCHANGED <<vars, sweepTasks, pendingWrite>>

(* total verdict *)
TReject == /\ Live /\ Why # "ok" /\ Why # "sweep-skip-not-adjusted"
           /\ PrintT(<<"REJECT", l, E.e, Why>>)
           /\ l' = Len(Ev) + 2
           /\ UNCHANGED <<vars, sweepTasks, pendingWrite>>

TAccept == /\ l = Len(Ev) + 1
           /\ PrintT(<<"ACCEPT", Len(Ev)>>)
           /\ l' = Len(Ev) + 3
           /\ UNCHANGED <<vars, sweepTasks, pendingWrite>>

TInit == Init /\ l = 1 /\ sweepTasks = {} /\ pendingWrite = 0

TNext == TSweep \/ TTask \/ TRecv \/ TWrite \/ TSweepEnd \/ TEnd
         \/ TAdjustSkip \/ TFreshen
         \/ TReject \/ TAccept

TSpec == TInit /\ [][TNext]_tvars

(* the invariants of Hier.tla that are meaningful on a trace *)
TFinalIsLast == FinalIsLast
TLastSweepFull == LastSweepFull
TNoRevisit == NoRevisit

=============================================================================
