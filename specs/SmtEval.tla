------------------------------- MODULE SmtEval ------------------------------
(***************************************************************************)
(* Values of SMT-LIB terms (C17): Eval(t, env, loc) for Core, Ints, Reals  *)
(* (rationals), FixedSizeBitVectors, datatypes, let, defined functions     *)
(* (beta reduction with proper scoping: arguments are evaluated in the     *)
(* caller's environment, the body under the parameters only) and           *)
(* quantifiers over finite domains.  Written from the SMT-LIB 2.6 theory   *)
(* definitions.  Unk is returned for everything this module does not       *)
(* evaluate (floating point, strings, arrays, uninterpreted functions,     *)
(* division by zero, quantifiers over Int/Real); Unk is strict.            *)
(*                                                                         *)
(* loc maps names to VALUES here; the values of the free constants of the  *)
(* script are part of loc (an assignment).                                 *)
(***************************************************************************)
EXTENDS SmtSem

Unk == <<"?">>
VB(b) == <<"b", IF b THEN 1 ELSE 0>>
VI(n) == <<"i", n>>
VV(w, n) == <<"v", w, n>>
VD(c, fs) == <<"d", c, fs>>
IsTrue(v) == v = <<"b", 1>>

Abs(x) == IF x < 0 THEN -x ELSE x
RECURSIVE Gcd(_, _)
Gcd(a, b) == IF b = 0 THEN a ELSE Gcd(b, a % b)
(* normalised rational; den # 0 *)
VR(num, den) ==
    LET s == IF den < 0 THEN -1 ELSE 1
        g == Gcd(Abs(num), Abs(den))
    IN <<"r", (s * num) \div g, (s * den) \div g>>

(* SMT-LIB integer division and modulus: x = y * div + mod, 0 <= mod < |y| *)
SDiv(x, y) == IF y > 0 THEN x \div y ELSE -(x \div (-y))
SMod(x, y) == x - y * SDiv(x, y)

-----------------------------------------------------------------------------
(* bit-vector arithmetic on naturals below 2^w                              *)
M(x, w) == x % Pow2(w)
RECURSIVE BitOp(_, _, _, _)
(* bitwise operation given by its truth table tt = <<f(0,0),f(0,1),f(1,0),f(1,1)>> *)
BitOp(tt, a, b, w) ==
    IF w = 0 THEN 0
    ELSE tt[2 * (a % 2) + (b % 2) + 1] + 2 * BitOp(tt, a \div 2, b \div 2, w - 1)
BNot(a, w) == Pow2(w) - 1 - a
BNeg(a, w) == M(Pow2(w) - a, w)
Msb(a, w) == a \div Pow2(w - 1)
UDiv(a, b, w) == IF b = 0 THEN Pow2(w) - 1 ELSE a \div b
URem(a, b, w) == IF b = 0 THEN a ELSE a % b
Shl(a, b, w) == IF b >= w THEN 0 ELSE M(a * Pow2(b), w)
LShr(a, b, w) == IF b >= w THEN 0 ELSE a \div Pow2(b)
AShr(a, b, w) == IF Msb(a, w) = 0 THEN LShr(a, b, w)
                 ELSE BNot(LShr(BNot(a, w), b, w), w)
SDivBV(a, b, w) ==
    CASE Msb(a, w) = 0 /\ Msb(b, w) = 0 -> UDiv(a, b, w)
      [] Msb(a, w) = 1 /\ Msb(b, w) = 0 -> BNeg(UDiv(BNeg(a, w), b, w), w)
      [] Msb(a, w) = 0 /\ Msb(b, w) = 1 -> BNeg(UDiv(a, BNeg(b, w), w), w)
      [] OTHER -> UDiv(BNeg(a, w), BNeg(b, w), w)
SRemBV(a, b, w) ==
    CASE Msb(a, w) = 0 /\ Msb(b, w) = 0 -> URem(a, b, w)
      [] Msb(a, w) = 1 /\ Msb(b, w) = 0 -> BNeg(URem(BNeg(a, w), b, w), w)
      [] Msb(a, w) = 0 /\ Msb(b, w) = 1 -> URem(a, BNeg(b, w), w)
      [] OTHER -> BNeg(URem(BNeg(a, w), BNeg(b, w), w), w)
SModBV(a, b, w) ==
    LET aa == IF Msb(a, w) = 0 THEN a ELSE BNeg(a, w)
        ab == IF Msb(b, w) = 0 THEN b ELSE BNeg(b, w)
        u == URem(aa, ab, w)
    IN CASE u = 0 -> u
         [] Msb(a, w) = 0 /\ Msb(b, w) = 0 -> u
         [] Msb(a, w) = 1 /\ Msb(b, w) = 0 -> M(BNeg(u, w) + b, w)
         [] Msb(a, w) = 0 /\ Msb(b, w) = 1 -> M(u + b, w)
         [] OTHER -> BNeg(u, w)
ToSigned(a, w) == IF Msb(a, w) = 1 THEN a - Pow2(w) ELSE a
RotL(a, i, w) == LET r == i % w
                 IN M(a * Pow2(r), w) + a \div Pow2(w - r)
RECURSIVE Rep(_, _, _)
Rep(a, w, i) == IF i = 1 THEN a ELSE a * Pow2(w * (i - 1)) + Rep(a, w, i - 1)

BVBin(op, a, b, w) ==
    CASE op = "bvand" -> BitOp(<<0, 0, 0, 1>>, a, b, w)
      [] op = "bvor" -> BitOp(<<0, 1, 1, 1>>, a, b, w)
      [] op = "bvxor" -> BitOp(<<0, 1, 1, 0>>, a, b, w)
      [] op = "bvnand" -> BitOp(<<1, 1, 1, 0>>, a, b, w)
      [] op = "bvnor" -> BitOp(<<1, 0, 0, 0>>, a, b, w)
      [] op = "bvxnor" -> BitOp(<<1, 0, 0, 1>>, a, b, w)
      [] op = "bvadd" -> M(a + b, w)
      [] op = "bvsub" -> M(a + Pow2(w) - b, w)
      [] op = "bvmul" -> M(a * b, w)
      [] op = "bvudiv" -> UDiv(a, b, w)
      [] op = "bvurem" -> URem(a, b, w)
      [] op = "bvsdiv" -> SDivBV(a, b, w)
      [] op = "bvsrem" -> SRemBV(a, b, w)
      [] op = "bvsmod" -> SModBV(a, b, w)
      [] op = "bvshl" -> Shl(a, b, w)
      [] op = "bvlshr" -> LShr(a, b, w)
      [] op = "bvashr" -> AShr(a, b, w)

BVCmp(op, a, b, w) ==
    CASE op = "bvult" -> a < b
      [] op = "bvule" -> a <= b
      [] op = "bvugt" -> a > b
      [] op = "bvuge" -> a >= b
      [] op = "bvslt" -> ToSigned(a, w) < ToSigned(b, w)
      [] op = "bvsle" -> ToSigned(a, w) <= ToSigned(b, w)
      [] op = "bvsgt" -> ToSigned(a, w) > ToSigned(b, w)
      [] op = "bvsge" -> ToSigned(a, w) >= ToSigned(b, w)

-----------------------------------------------------------------------------
(* Domains of sorts (for assignments and quantifiers).  Bit-vectors up to  *)
(* width 4 are complete; wider ones get boundary values.  Int and Real are *)
(* samples: usable for assignments to free symbols, NOT for quantifiers.   *)
BVSample(w) == IF w <= 4 THEN 0..(Pow2(w) - 1)
               ELSE {0, 1, 2, Pow2(w - 1) - 1, Pow2(w - 1), Pow2(w - 1) + 1,
                     Pow2(w) - 2, Pow2(w) - 1, M(165, w), M(90, w)}
IntSample == -2..2
RealSample == {VR(-1, 1), VR(0, 1), VR(1, 2), VR(1, 1), VR(3, 2)}

RECURSIVE SeqProd(_)
(* all sequences picking one element of each set of the sequence of sets *)
SeqProd(ss) == IF ss = <<>> THEN {<<>>}
               ELSE {<<x>> \o r : x \in Head(ss), r \in SeqProd(Tail(ss))}

(* values of a sort; datatypes one level deep (fields must not be          *)
(* datatypes); {} = no enumeration available                               *)
BaseDomain(s) ==
    CASE s = SBool -> {VB(TRUE), VB(FALSE)}
      [] s = SInt -> {VI(n) : n \in IntSample}
      [] s = SReal -> RealSample
      [] IsBV(s) -> {VV(s[2], n) : n \in BVSample(s[2])}
      [] OTHER -> {}
Domain(s, env) ==
    IF IsDT(s) THEN
        UNION {LET c == env.ctors[cn]
               IN IF \E i \in 1..Len(c.fs) : BaseDomain(c.fs[i]) = {} THEN {}
                  ELSE {VD(cn, fv) :
                          fv \in SeqProd([i \in 1..Len(c.fs) |-> BaseDomain(c.fs[i])])}
               : cn \in {x \in DOMAIN env.ctors : env.ctors[x].dt = s[2]}}
    ELSE BaseDomain(s)
(* may a quantifier over s be decided by enumerating Domain(s)? *)
Finite(s, env) ==
    \/ s = SBool
    \/ IsBV(s) /\ s[2] <= 4
    \/ IsDT(s) /\ Domain(s, env) # {}
            /\ \A cn \in {x \in DOMAIN env.ctors : env.ctors[x].dt = s[2]} :
                 \A i \in 1..Len(env.ctors[cn].fs) :
                    LET f == env.ctors[cn].fs[i]
                    IN f = SBool \/ (IsBV(f) /\ f[2] <= 4)

-----------------------------------------------------------------------------
RECURSIVE Eval(_, _, _), FoldChain(_, _, _, _)

(* left-associative fold of a binary value operator over a sequence *)
FoldChain(f(_, _), vs, i, acc) ==
    IF i > Len(vs) THEN acc ELSE FoldChain(f, vs, i + 1, f(acc, vs[i]))

RAdd(a, b) == VR(a[2] * b[3] + b[2] * a[3], a[3] * b[3])
RSub(a, b) == VR(a[2] * b[3] - b[2] * a[3], a[3] * b[3])
RMul(a, b) == VR(a[2] * b[2], a[3] * b[3])
RLt(a, b) == a[2] * b[3] < b[2] * a[3]

DecimalVal(s) ==
    LET p == CHOOSE i \in DotPos(s) : TRUE
    IN VR(NumIn(s, 1, p - 1, 10) * Pow(10, Len(s) - p) + NumIn(s, p + 1, Len(s), 10),
          Pow(10, Len(s) - p))

(* relation chain: (op a b c) = (op a b) and (op b c) *)
Chain(vs, R(_, _)) == \A i \in 1..(Len(vs) - 1) : R(vs[i], vs[i + 1])

EvalApp(op, ix, vs, srt, env) ==
    \* vs: argument values (none Unk); srt: argument sorts
    LET n == Len(vs)
        b(i) == vs[i][2] = 1
    IN
    CASE op = "not" -> VB(~b(1))
      [] op = "and" -> VB(\A i \in 1..n : b(i))
      [] op = "or" -> VB(\E i \in 1..n : b(i))
      [] op = "xor" ->
           FoldChain(LAMBDA x, y : VB((x[2] = 1) # (y[2] = 1)), vs, 2, vs[1])
      [] op = "=>" ->
           \* right associative
           VB((\A i \in 1..(n - 1) : b(i)) => b(n))
      [] op = "=" -> VB(Chain(vs, LAMBDA x, y : x = y))
      [] op = "distinct" -> VB(\A i, j \in 1..n : i < j => vs[i] # vs[j])
      [] op = "ite" -> IF b(1) THEN vs[2] ELSE vs[3]
         \* ---- arithmetic
      [] op = "+" /\ srt[1] = SInt ->
           FoldChain(LAMBDA x, y : VI(x[2] + y[2]), vs, 2, vs[1])
      [] op = "*" /\ srt[1] = SInt ->
           FoldChain(LAMBDA x, y : VI(x[2] * y[2]), vs, 2, vs[1])
      [] op = "-" /\ srt[1] = SInt ->
           IF n = 1 THEN VI(-vs[1][2])
           ELSE FoldChain(LAMBDA x, y : VI(x[2] - y[2]), vs, 2, vs[1])
      [] op = "+" /\ srt[1] = SReal -> FoldChain(RAdd, vs, 2, vs[1])
      [] op = "*" /\ srt[1] = SReal -> FoldChain(RMul, vs, 2, vs[1])
      [] op = "-" /\ srt[1] = SReal ->
           IF n = 1 THEN VR(-vs[1][2], vs[1][3])
           ELSE FoldChain(RSub, vs, 2, vs[1])
      [] op = "/" ->
           IF \E i \in 2..n : vs[i][2] = 0 THEN Unk
           ELSE FoldChain(LAMBDA x, y : VR(x[2] * y[3], x[3] * y[2]), vs, 2, vs[1])
      [] op = "div" ->
           IF \E i \in 2..n : vs[i][2] = 0 THEN Unk
           ELSE FoldChain(LAMBDA x, y : VI(SDiv(x[2], y[2])), vs, 2, vs[1])
      [] op = "mod" ->
           IF vs[2][2] = 0 THEN Unk ELSE VI(SMod(vs[1][2], vs[2][2]))
      [] op = "abs" -> VI(Abs(vs[1][2]))
      [] op \in {"<", "<=", ">", ">="} /\ srt[1] = SInt ->
           VB(Chain(vs, LAMBDA x, y :
                CASE op = "<" -> x[2] < y[2] [] op = "<=" -> x[2] <= y[2]
                  [] op = ">" -> x[2] > y[2] [] OTHER -> x[2] >= y[2]))
      [] op \in {"<", "<=", ">", ">="} /\ srt[1] = SReal ->
           VB(Chain(vs, LAMBDA x, y :
                CASE op = "<" -> RLt(x, y) [] op = "<=" -> ~RLt(y, x)
                  [] op = ">" -> RLt(y, x) [] OTHER -> ~RLt(x, y)))
      [] op = "to_real" -> VR(vs[1][2], 1)
      [] op = "is_int" -> VB(vs[1][3] = 1)
      [] op = "divisible" -> VB(SMod(vs[1][2], ix[1]) = 0)
         \* ---- bit-vectors
      [] op = "bvnot" -> VV(vs[1][2], BNot(vs[1][3], vs[1][2]))
      [] op = "bvneg" -> VV(vs[1][2], BNeg(vs[1][3], vs[1][2]))
      [] op \in BVBinSame ->
           FoldChain(LAMBDA x, y : VV(x[2], BVBin(op, x[3], y[3], x[2])), vs, 2, vs[1])
      [] op = "bvcomp" -> VV(1, IF vs[1] = vs[2] THEN 1 ELSE 0)
      [] op \in BVRel -> VB(BVCmp(op, vs[1][3], vs[2][3], vs[1][2]))
      [] op = "concat" ->
           VV(vs[1][2] + vs[2][2], vs[1][3] * Pow2(vs[2][2]) + vs[2][3])
      [] op = "extract" ->
           VV(ix[1] - ix[2] + 1, M(vs[1][3] \div Pow2(ix[2]), ix[1] - ix[2] + 1))
      [] op = "zero_extend" -> VV(vs[1][2] + ix[1], vs[1][3])
      [] op = "sign_extend" ->
           LET w == vs[1][2]
           IN VV(w + ix[1], IF Msb(vs[1][3], w) = 1
                            THEN vs[1][3] + (Pow2(ix[1]) - 1) * Pow2(w)
                            ELSE vs[1][3])
      [] op = "repeat" -> VV(vs[1][2] * ix[1], Rep(vs[1][3], vs[1][2], ix[1]))
      [] op = "rotate_left" -> VV(vs[1][2], RotL(vs[1][3], ix[1], vs[1][2]))
      [] op = "rotate_right" ->
           LET w == vs[1][2]
           IN VV(w, RotL(vs[1][3], w - (ix[1] % w), w))
      [] OTHER -> Unk

Eval(t, env, loc) ==
    IF IsLeaf(t) THEN
        LET s == t.s
        IN CASE s \in DOMAIN loc -> loc[s]
             [] s \in DOMAIN env.defs /\ env.defs[s].pn = <<>> ->
                  \* nullary defined function: its body under no locals but
                  \* the global assignment (kept in loc under names that are
                  \* declared constants, never parameters here)
                  Eval(env.defs[s].body, env, loc)
             [] s \in DOMAIN env.ctors /\ env.ctors[s].fs = <<>> -> VD(s, <<>>)
             [] s = "true" -> VB(TRUE)
             [] s = "false" -> VB(FALSE)
             [] IsNumeral(s) -> VI(NatOf(s))
             [] IsDecimal(s) -> DecimalVal(s)
             [] IsBin(s) -> VV(Len(s) - 2, NumIn(s, 3, Len(s), 2))
             [] IsHex(s) -> VV(4 * (Len(s) - 2), NumIn(s, 3, Len(s), 16))
             [] OTHER -> Unk
    ELSE IF Len(t.k) = 0 THEN Unk
    ELSE IF IsIndexedId(t) THEN
        LET nm == t.k[2].s
            ix == IdxOf(t)
        IN IF StartsWith(nm, "bv") /\ Len(nm) >= 3
              /\ IsNumeral(SubSeq(nm, 3, Len(nm))) /\ Len(ix) = 1 /\ Len(t.k) = 3
           THEN LET v == NatOf(SubSeq(nm, 3, Len(nm)))
                IN IF v < Pow2(ix[1]) THEN VV(ix[1], v) ELSE Unk
           ELSE Unk
    ELSE IF IsList(t.k[1]) THEN
        LET hd == t.k[1]
        IN IF IsIndexedId(hd) THEN
              IF hd.k[2].s = "is" THEN
                  LET v == Eval(t.k[2], env, loc)
                  IN IF v = Unk THEN Unk ELSE VB(v[2] = hd.k[3].s)
              ELSE
              LET vs == [i \in 1..(Len(t.k) - 1) |-> Eval(t.k[i + 1], env, loc)]
              IN IF \E i \in 1..Len(vs) : vs[i] = Unk THEN Unk
                 ELSE EvalApp(hd.k[2].s, IdxOf(hd), vs, <<>>, env)
           ELSE Unk
    ELSE
        LET h == t.k[1].s
            n == Len(t.k) - 1
        IN
        CASE h = "let" ->
               LET bs == t.k[2].k
                   names == {bs[i].k[1].s : i \in 1..Len(bs)}
                   loc2 == [x \in names |->
                              Eval((CHOOSE bb \in {bs[i] : i \in 1..Len(bs)} :
                                      bb.k[1].s = x).k[2], env, loc)] @@ loc
               IN \* an unevaluated binding only matters if it is used
                  Eval(t.k[3], env, loc2)
          [] h \in {"forall", "exists"} ->
               LET bs == t.k[2].k
                   srt == [i \in 1..Len(bs) |-> SortVal(bs[i].k[2], env)]
               IN IF \E i \in 1..Len(bs) : ~Finite(srt[i], env) THEN Unk
                  ELSE
                  LET tuples == SeqProd([i \in 1..Len(bs) |-> Domain(srt[i], env)])
                      locOf(tp) == [x \in {bs[i].k[1].s : i \in 1..Len(bs)} |->
                                      tp[CHOOSE i \in 1..Len(bs) : bs[i].k[1].s = x]] @@ loc
                      rs == {Eval(t.k[3], env, locOf(tp)) : tp \in tuples}
                  IN IF Unk \in rs THEN Unk
                     ELSE IF h = "forall" THEN VB(rs \subseteq {VB(TRUE)})
                     ELSE VB(VB(TRUE) \in rs)
          [] h = "!" -> Eval(t.k[2], env, loc)
          [] h \in DOMAIN loc -> Unk
          [] h \in DOMAIN env.defs ->
               \* beta reduction: arguments in the caller's environment, the
               \* body under the parameters (which shadow everything else)
               LET d == env.defs[h]
                   vs == [i \in 1..n |-> Eval(t.k[i + 1], env, loc)]
               IN IF n # Len(d.pn) THEN Unk
                  ELSE Eval(d.body, env,
                            [x \in {d.pn[i] : i \in 1..n} |->
                               vs[CHOOSE i \in 1..n : d.pn[i] = x]] @@ loc)
          [] h \in DOMAIN env.funs -> Unk   \* uninterpreted
          [] h \in DOMAIN env.ctors ->
               LET vs == [i \in 1..n |-> Eval(t.k[i + 1], env, loc)]
               IN IF \E i \in 1..n : vs[i] = Unk THEN Unk ELSE VD(h, vs)
          [] h \in DOMAIN env.sels ->
               LET v == Eval(t.k[2], env, loc)
               IN IF v = Unk THEN Unk
                  ELSE IF v[2] = env.sels[h].ctor THEN v[3][env.sels[h].idx]
                  ELSE Unk   \* selector applied to another constructor
          [] OTHER ->
               LET vs == [i \in 1..n |-> Eval(t.k[i + 1], env, loc)]
                   srt == [i \in 1..n |->
                             CASE vs[i][1] = "i" -> SInt [] vs[i][1] = "r" -> SReal
                               [] OTHER -> SBool]
               IN IF n = 0 \/ \E i \in 1..n : vs[i] = Unk THEN Unk
                  ELSE EvalApp(h, <<>>, vs, srt, env)

=============================================================================
