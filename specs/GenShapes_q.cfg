SPECIFICATION Spec
CONSTANTS
  MaxArity = 2
INVARIANT TypeOK
