\* C07 thorough: all forests (no sharing) <= 6 positions, <= 3 top-level, 3 abstract leaf labels
SPECIFICATION Spec
CONSTANTS
  Labels <- LabelsABC
  MaxNodes = 6
  MaxDepth = 4
  MaxTop = 3
  ShareOn = FALSE
INVARIANT TraversalsArePermutations
INVARIANT CountsAgree
INVARIANT SharingIffDuplicate
