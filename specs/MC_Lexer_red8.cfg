\* texts of length <= 8 over a reduced alphabet (one white space + both line
\* breaks, one atom character), deeper nesting
SPECIFICATION Spec
CONSTANTS
  Chars = {"LP", "RP", "SP", "LF", "CR", "DQ", "BAR", "SEMI", "A", "BS"}
  MaxLen = 8
  MaxDepth = 3
INVARIANT TypeOK
INVARIANT TokensMatchStructure
INVARIANT NoCharInvented
PROPERTY StructureStable
