\* DdminOuter.tla, faulty variant leave-early: TLC must refute
SPECIFICATION OSpec
CONSTANTS
  N1 = 2
  N2 = 2
  MaxSize = 3
  Growth = TRUE
  Faulty = "leave-early"
PROPERTY Stage1LeftAtFixpoint
PROPERTY StopsOnlyAfterQuietSweep
