------------------------------ MODULE MC_Options ----------------------------
(***************************************************************************)
(* Model checking Options.tla on a small abstract registry: 3 groups (one  *)
(* without a relevance test) x 2 mutators, every option sequence of length *)
(* <= MaxLen, every declaration profile.  The command line is consumed     *)
(* one option per step; `AutoStep` then applies theory detection.          *)
(***************************************************************************)
EXTENDS Options, TLC

CONSTANT MaxLen

Reg == [muts |-> << [cls |-> "a1", group |-> "A"], [cls |-> "a2", group |-> "A"],
                    [cls |-> "b1", group |-> "B"], [cls |-> "BinaryReduction", group |-> "B"],
                    [cls |-> "c1", group |-> "C"], [cls |-> "c2", group |-> "C"] >>,
        groups |-> << [name |-> "A", rel |-> TRUE], [name |-> "B", rel |-> TRUE],
                      [name |-> "C", rel |-> FALSE] >>]

AllOpts == {<<"mut", m, v>> : m \in MutsOf(Reg), v \in BOOLEAN}
           \cup {<<"group", g, v>> : g \in GroupsOf(Reg), v \in BOOLEAN}
           \cup {<<"all", "", FALSE>>}

VARIABLES st, opts, decl, phase, before
vars == <<st, opts, decl, phase, before>>

Init == /\ st = Init0(Reg) /\ opts = <<>> /\ phase = "cmdline"
        /\ decl \in SUBSET GroupsOf(Reg) /\ before = Init0(Reg)

Option(o) == /\ phase = "cmdline" /\ Len(opts) < MaxLen
             /\ st' = Apply(Reg, st, o) /\ opts' = Append(opts, o)
             /\ UNCHANGED <<decl, phase, before>>

AutoStep == /\ phase = "cmdline"
            /\ before' = st
            /\ st' = AutoDetect(Reg, st, decl)
            /\ phase' = "detected"
            /\ UNCHANGED <<opts, decl>>

Next == AutoStep \/ \E o \in AllOpts : Option(o)
Spec == Init /\ [][Next]_vars

(* the step-wise state equals the closed form used on recorded cases *)
ClosedForm == phase = "detected" => st = Final(Reg, opts, decl)

(* detection only ever switches OFF, and only groups the user left unset,  *)
(* only theories with a relevance test, only if nothing is declared        *)
DetectionOnlyDisablesUnsetUndeclared ==
  phase = "detected" =>
    \A m \in MutsOf(Reg) :
       st.flag[m] # before.flag[m] =>
          /\ before.flag[m] /\ ~st.flag[m]
          /\ \E g \in GroupsOf(Reg) :
               /\ m \in Members(Reg, g) /\ before.group[g] = "unset"
               /\ HasRel(Reg, g) /\ g \notin decl

(* an explicit group option is final as far as detection is concerned *)
ExplicitGroupRespected ==
  phase = "detected" =>
    \A g \in GroupsOf(Reg) : before.group[g] # "unset" =>
       \A m \in Members(Reg, g) : st.flag[m] = before.flag[m]

(* the last option on a mutator wins over earlier group options *)
LastWins ==
  (phase = "cmdline" /\ opts # <<>> /\ opts[Len(opts)][1] = "mut")
     => st.flag[opts[Len(opts)][2]] = opts[Len(opts)][3]

DisableAllThenOne ==
  (phase = "cmdline" /\ Len(opts) = 2 /\ opts[1][1] = "all" /\ opts[2][1] = "mut" /\ opts[2][3])
     => {m \in MutsOf(Reg) : st.flag[m]} = {opts[2][2]}
=============================================================================
