\* C13 thorough: all forests with sharing, <= 7 positions, <= 3 top-level trees, 2 labels
SPECIFICATION Spec
CONSTANTS
  Labels <- LabelsAB
  MaxNodes = 7
  MaxDepth = 4
  MaxTop = 3
  ShareOn = TRUE
INVARIANT TraversalsArePermutations
INVARIANT CountsAgree
INVARIANT ReduplicateAlgebra
INVARIANT DfsStartsAtFirst
