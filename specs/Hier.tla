-------------------------------- MODULE Hier --------------------------------
(***************************************************************************)
(* strategy_hierarchical.reduce: one action per critical section.          *)
(*                                                                         *)
(* Threads/processes and what they share:                                  *)
(*   main loop      passid, skip, fresh, reduction, base (exprs), outfile  *)
(*   producer       the pool's task-handler thread runs Producer.generate: *)
(*                  reads the abort flag between tasks, appends to `queue` *)
(*   workers        Consumer.check: read flag, apply+check (verdict), read *)
(*                  flag again, append the result to `results`             *)
(*   results        imap_unordered delivers in COMPLETION order (a FIFO)   *)
(*   abort          Manager().Event shared by all                          *)
(*                                                                         *)
(* The reduction system is abstract: TaskList(b, p) is the ordered list of *)
(* tasks [node, mut, cand] the mutators of pass p propose for input b      *)
(* (node-major = BFS order, then mutator order, then proposal order).      *)
(* The command is the memoised nondeterministic function `verdict`: the    *)
(* first check of a candidate chooses TRUE/FALSE, later checks reuse it,   *)
(* so TLC ranges over ALL deterministic commands.                          *)
(***************************************************************************)
EXTENDS Naturals, Sequences, FiniteSets, TLC

CONSTANTS Workers,         \* set of worker ids
          Orig,            \* the original input
          NPasses,         \* number of passes (the last contains every enabled mutator)
          TaskList(_, _),  \* (input, pass) -> sequence of [node, mut, cand]
          MaxDepth1(_),    \* pass -> TRUE if the pass only looks at top-level nodes (informational)
          None             \* "no file written yet" / "no candidate"

VARIABLES base,       \* current accepted input (exprs in reduce)
          passid, skip, fresh, reduction,
          abort,      \* the Manager().Event
          gen,        \* Producer: [done, list, idx, gbase]
          queue,      \* tasks handed to the pool, FIFO
          wk,         \* per worker: [st |-> "idle"] | [st |-> "pre"|"post", task, v]
          results,    \* completed results, FIFO in completion order
          verdict,    \* memoised command: candidate -> BOOLEAN (partial)
          outfile,    \* content of the output file (None before the first write)
          pc,         \* "sweepstart" | "loop" | "done"
          hist        \* history: sequence of adopted inputs; sweep bookkeeping

vars == <<base, passid, skip, fresh, reduction, abort, gen, queue, wk,
          results, verdict, outfile, pc, hist>>

Idle == [st |-> "idle"]
VDom == DOMAIN verdict
Min2(a, b) == IF a < b THEN a ELSE b

Init ==
  /\ base = Orig /\ passid = 1 /\ skip = 0 /\ fresh = TRUE /\ reduction = FALSE
  /\ abort = FALSE
  /\ gen = [done |-> TRUE, list |-> <<>>, idx |-> 1, gbase |-> Orig]
  /\ queue = <<>> /\ wk = [w \in Workers |-> Idle] /\ results = <<>>
  /\ verdict = <<>>
  /\ outfile = None /\ pc = "sweepstart"
  /\ hist = [chain |-> <<Orig>>, sweepSkip |-> 0, sweepBase |-> Orig,
             adoptedSeq |-> 0, nsweeps |-> 0]

(* while True: ... abort_flag.clear(); prod = Producer(cur_passes, flag, exprs) *)
(* body shared with the trace specification (TraceHier.tla) *)
SweepStartBody ==
  /\ pc = "sweepstart"
  /\ abort' = FALSE /\ reduction' = FALSE
  /\ hist' = [hist EXCEPT !.sweepSkip = skip, !.sweepBase = base,
                          !.adoptedSeq = 0, !.nsweeps = @ + 1]
  /\ pc' = "loop"
  /\ UNCHANGED <<base, passid, skip, fresh, verdict, outfile>>

SweepStart ==
  /\ SweepStartBody
  /\ gen' = [done |-> FALSE,
             list |-> SelectSeq(TaskList(base, passid), LAMBDA t: t.node > skip),
             idx |-> 1, gbase |-> base]
  /\ UNCHANGED <<queue, wk, results>>

(* Producer.generate / __mutate_node in the task-handler thread: the flag  *)
(* is read before every task; once set the generator ends.                 *)
Produce ==
  /\ ~gen.done
  /\ IF abort \/ gen.idx > Len(gen.list)
     THEN gen' = [gen EXCEPT !.done = TRUE] /\ UNCHANGED queue
     ELSE /\ queue' = Append(queue, [seq |-> gen.idx,
                                     node |-> gen.list[gen.idx].node,
                                     mut |-> gen.list[gen.idx].mut,
                                     cand |-> gen.list[gen.idx].cand,
                                     tbase |-> gen.gbase])
          /\ gen' = [gen EXCEPT !.idx = @ + 1]
  /\ UNCHANGED <<base, passid, skip, fresh, reduction, abort, wk, results,
                 verdict, outfile, pc, hist>>

Take(w) ==
  /\ wk[w].st = "idle" /\ queue # <<>>
  /\ wk' = [wk EXCEPT ![w] = [st |-> "pre", task |-> Head(queue), v |-> FALSE]]
  /\ queue' = Tail(queue)
  /\ UNCHANGED <<base, passid, skip, fresh, reduction, abort, gen, results,
                 verdict, outfile, pc, hist>>

AbortRes(t) == [seq |-> t.seq, node |-> t.node, mut |-> t.mut, ok |-> FALSE,
                ab |-> TRUE, cand |-> None, tbase |-> t.tbase]

(* Consumer.check up to and including checker.check_exprs: the three flag  *)
(* reads before the check collapse into one (nothing observable happens    *)
(* in between); the candidate is apply_simp(task.exprs, task.simp).        *)
WPre(w) ==
  /\ wk[w].st = "pre"
  /\ IF abort
     THEN /\ results' = Append(results, AbortRes(wk[w].task))
          /\ wk' = [wk EXCEPT ![w] = Idle] /\ UNCHANGED verdict
     ELSE /\ \E v \in (IF wk[w].task.cand \in VDom
                       THEN {verdict[wk[w].task.cand]} ELSE BOOLEAN) :
               /\ verdict' = (wk[w].task.cand :> v) @@ verdict
               /\ wk' = [wk EXCEPT ![w] = [st |-> "post", task |-> wk[w].task,
                                           v |-> v]]
          /\ UNCHANGED results
  /\ UNCHANGED <<base, passid, skip, fresh, reduction, abort, gen, queue,
                 outfile, pc, hist>>

(* after the check: flag read once more, then the result is returned *)
WPost(w) ==
  /\ wk[w].st = "post"
  /\ LET t == wk[w].task IN
     results' = Append(results,
        IF abort THEN AbortRes(t)
        ELSE [seq |-> t.seq, node |-> t.node, mut |-> t.mut, ok |-> wk[w].v,
              ab |-> FALSE, cand |-> IF wk[w].v THEN t.cand ELSE None,
              tbase |-> t.tbase])
  /\ wk' = [wk EXCEPT ![w] = Idle]
  /\ UNCHANGED <<base, passid, skip, fresh, reduction, abort, gen, queue,
                 verdict, outfile, pc, hist>>

(* an exception inside Consumer.check: logged, abort result returned *)
WRaise(w) ==
  /\ wk[w].st = "pre"
  /\ results' = Append(results, AbortRes(wk[w].task))
  /\ wk' = [wk EXCEPT ![w] = Idle]
  /\ UNCHANGED <<base, passid, skip, fresh, reduction, abort, gen, queue,
                 verdict, outfile, pc, hist>>

(* for result in pool.imap_unordered(...): one iteration of the main loop; *)
(* MainRecvOn(r) is the body for a received result r (shared with          *)
(* TraceHier.tla)                                                          *)
MainRecvOn(r) ==
  /\ pc = "loop"
  /\ IF abort
     THEN \* skip remaining results if we had a success
          /\ skip' = Min2(skip, r.node - 1)
          /\ UNCHANGED <<base, fresh, reduction, abort, outfile, hist>>
     ELSE IF r.ok
          THEN \* trigger abort, adopt (reduplicate), write the file
               /\ abort' = TRUE /\ reduction' = TRUE
               /\ base' = r.cand /\ skip' = r.node - 1 /\ fresh' = FALSE
               /\ outfile' = r.cand
               /\ hist' = [hist EXCEPT !.chain = Append(@, r.cand),
                                       !.adoptedSeq = r.seq]
          ELSE UNCHANGED <<base, skip, fresh, reduction, abort, outfile, hist>>
  /\ UNCHANGED <<passid, verdict, pc>>

MainRecv ==
  /\ results # <<>>
  /\ MainRecvOn(Head(results))
  /\ results' = Tail(results)
  /\ UNCHANGED <<gen, queue, wk>>

Quiet == /\ gen.done /\ queue = <<>> /\ results = <<>>
         /\ \A w \in Workers : wk[w].st = "idle"

(* the for loop over imap_unordered is exhausted (body shared with          *)
(* TraceHier.tla)                                                          *)
SweepEndBody ==
  /\ pc = "loop"
  /\ IF reduction
     THEN pc' = "sweepstart" /\ UNCHANGED <<passid, skip, fresh>>
     ELSE IF fresh
          THEN IF passid < NPasses
               THEN /\ passid' = passid + 1 /\ skip' = 0 /\ fresh' = TRUE
                    /\ pc' = "sweepstart"
               ELSE pc' = "done" /\ UNCHANGED <<passid, skip, fresh>>
          ELSE /\ skip' = 0 /\ fresh' = TRUE /\ pc' = "sweepstart"
               /\ UNCHANGED passid
  /\ UNCHANGED <<base, reduction, abort, verdict, outfile, hist>>

SweepEnd ==
  /\ Quiet
  /\ SweepEndBody
  /\ UNCHANGED <<gen, queue, wk, results>>

Next == \/ SweepStart \/ Produce \/ MainRecv \/ SweepEnd
        \/ \E w \in Workers : Take(w) \/ WPre(w) \/ WPost(w)

NextWithRaise == Next \/ \E w \in Workers : WRaise(w)

Spec      == Init /\ [][Next]_vars /\ WF_vars(Next)
SpecRaise == Init /\ [][NextWithRaise]_vars

-----------------------------------------------------------------------------
(* Properties *)

TypeOK == /\ pc \in {"sweepstart", "loop", "done"}
          /\ passid \in 1..NPasses /\ skip \in Nat
          /\ fresh \in BOOLEAN /\ reduction \in BOOLEAN /\ abort \in BOOLEAN

(* C01: whenever the file has been written it holds an input on which the  *)
(* command was actually run and accepted, and it is the current input.     *)
OutfileAccepted ==
  outfile # None => outfile = base /\ outfile \in VDom /\ verdict[outfile]

(* C05: a success that will be adopted was computed against the current    *)
(* input (never against a superseded one).                                 *)
NoStaleAdoption ==
  (pc = "loop" /\ ~abort /\ results # <<>> /\ Head(results).ok)
     => Head(results).tbase = base

(* C05: every change of the file goes from the current input x to a        *)
(* candidate derived from x by one task and accepted by the command.       *)
Chain ==
  [][outfile' # outfile =>
       /\ results # <<>> /\ Head(results).ok /\ Head(results).tbase = base
       /\ Head(results).cand = outfile'
       /\ \E k \in 1..Len(TaskList(base, passid)) :
             TaskList(base, passid)[k].cand = outfile'
       /\ outfile' \in VDom /\ verdict[outfile']]_vars

(* C05: the file left at exit is the last element of the chain *)
FinalIsLast ==
  pc = "done" => (outfile = None /\ Len(hist.chain) = 1)
                 \/ outfile = hist.chain[Len(hist.chain)]

(* C02: at termination every task of the last pass (which contains every   *)
(* enabled mutator) for the final input was run and rejected.              *)
FixedPoint ==
  pc = "done" =>
     \A k \in 1..Len(TaskList(base, NPasses)) :
        LET c == TaskList(base, NPasses)[k].cand
        IN c \in VDom /\ ~verdict[c]

(* C02, stronger form: the last sweep started at node 0 on the final input *)
LastSweepFull ==
  pc = "done" => hist.sweepSkip = 0 /\ hist.sweepBase = base

(* C03 *)
Termination == <>(pc = "done")

(* no input is adopted twice (acyclic reduction systems) *)
NoRevisit ==
  \A i, j \in 1..Len(hist.chain) : i # j => hist.chain[i] # hist.chain[j]

(* C18 (Workers = 1): the adopted task is the first accepted task of its   *)
(* sweep in generation order.                                              *)
FirstSuccessAdopted ==
  (Cardinality(Workers) = 1 /\ hist.adoptedSeq > 0) =>
     \A s \in 1..(hist.adoptedSeq - 1) :
        gen.list[s].cand \in VDom /\ ~verdict[gen.list[s].cand]

(* the skip bookkeeping never passes the node of an unexamined accepted    *)
(* candidate while a pass is in progress (informational)                   *)
SkipBelowNodes == pc = "loop" => skip <= Len(TaskList(base, passid)) + 1

=============================================================================
