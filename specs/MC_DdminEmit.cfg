\* sequential ddmin, 4 atoms: every deterministic command
SPECIFICATION Spec
CONSTANTS
  NAtoms = 4
  Workers = {1}
  Par = FALSE
  Shrinks <- NativeShrinks
INVARIANT OutfileAccepted
INVARIANT FinalIsLast
INVARIANT NoRevisit
INVARIANT OneMinimal
INVARIANT SeqDeterministic
INVARIANT Emit
PROPERTY Chain
