------------------------------ MODULE ExecTrace -----------------------------
(***************************************************************************)
(* Code -> spec for C10: executions of the command recorded from real runs *)
(* (limit used, wall time, timed out or not, verdict of the check they     *)
(* belong to) are judged with Exec.tla's operators.                        *)
(*   timed-out-run-accepted : TimeoutVerdictOK                             *)
(*   wait-exceeded-limit    : the wait returned later than limit + slack   *)
(*   derived-limit          : DerivedLimitOK (1.5 x (golden + 1 s))        *)
(***************************************************************************)
EXTENDS Exec, Json, IOUtils

Cases == JsonDeserialize(IOEnv.CASES)
VARIABLE i

Has(c, f) == f \in DOMAIN c

Verdict(c) ==
  IF Has(c, "derived")
  THEN IF DerivedLimitOK(c.golden_ms, c.limit_ms) THEN "ok" ELSE "derived-limit"
  ELSE IF ~TimeoutVerdictOK(c.goldenTimedOut, c.runTimedOut, c.accepted)
       THEN "timed-out-run-accepted"
  ELSE IF c.limit_ms > 0 /\ c.wall_ms > c.limit_ms + 1500
       THEN "wait-exceeded-limit"
  ELSE "ok"

TInit == i = 0 /\ beh = "quick" /\ phase = "returned" /\ clock = 0 /\ cpu = 0
         /\ mem = 0 /\ alive = FALSE /\ pipes = FALSE /\ result = "exit"
TNext == i < Len(Cases) /\ i' = i + 1
         /\ UNCHANGED <<beh, phase, clock, cpu, mem, alive, pipes, result>>
Judge == i > 0 => LET v == Verdict(Cases[i])
                  IN IF v = "ok" THEN TRUE ELSE PrintT(<<"FAIL", Cases[i].cid, v>>)
=============================================================================
