\* DdminOuter.tla without growing steps: reduce() returns only at a fixed point of all its passes
SPECIFICATION OSpec
CONSTANTS
  N1 = 2
  N2 = 2
  MaxSize = 5
  Growth = FALSE
  Faulty = "none"
INVARIANT TypeOK
INVARIANT DoneIsFixpoint
PROPERTY Stage1LeftAtFixpoint
PROPERTY StopsOnlyAfterQuietSweep
