INIT TInit
NEXT TNext
CONSTANTS
  Limit = 1
  CpuLimit = 1
  MemLimit = 1
INVARIANT Judge
