\* every in-scope text of length <= 6 over the full class alphabet
SPECIFICATION Spec
CONSTANTS
  Chars = {"LP", "RP", "SP", "TAB", "LF", "CR", "DQ", "BAR", "SEMI", "A", "D", "HASH", "COLON", "MINUS", "BS"}
  MaxLen = 6
  MaxDepth = 2
INVARIANT TypeOK
INVARIANT TokensMatchStructure
INVARIANT NoCharInvented
PROPERTY StructureStable
