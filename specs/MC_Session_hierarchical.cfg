\* Session.tla, strategy hierarchical: 4 inputs, every order of adoptions
SPECIFICATION SSpec
CONSTANTS
  Inputs = {1, 2, 3, 4}
  Strategy = "hierarchical"
  Faulty = "none"
INVARIANT TypeOK
INVARIANT HandOver
INVARIANT FileIsCurrent
INVARIANT ReportTruthful
PROPERTY Finishes
