\* Session.tla, faulty variant stale-handover (hybrid): TLC must refute HandOver / FileIsCurrent / ReportTruthful
SPECIFICATION SSpec
CONSTANTS
  Inputs = {1, 2, 3}
  Strategy = "hybrid"
  Faulty = "stale-handover"
INVARIANT HandOver
INVARIANT FileIsCurrent
INVARIANT ReportTruthful
