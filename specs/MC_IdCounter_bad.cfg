SPECIFICATION Spec
CONSTANTS
  Procs = {p1, p2, p3}
  MaxAlloc = 2
  ReadUnderLock = FALSE
INVARIANT Unique
INVARIANT MutualExclusion
