------------------------------- MODULE Lexer -------------------------------
(***************************************************************************)
(* Generator form of the SMT-LIB reader of LexerOps.tla: TLC enumerates    *)
(* every in-scope text of length <= MaxLen over Chars, character by        *)
(* character; final states (done = TRUE) carry the text, its token         *)
(* sequence and its forest, and are replayed into nodeio.parse_smtlib      *)
(* (C08).  See LexerOps.tla for the reader itself and the scope rules.     *)
(***************************************************************************)
EXTENDS LexerOps

CONSTANTS Chars,      \* subset of AllChars explored by the generator
          MaxLen,     \* maximal text length
          MaxDepth    \* maximal nesting depth of parentheses

VARIABLES text,   \* the characters read so far
          mode,   \* "top" | "atom" | "str" | "strq" | "bar" | "aft" | "com"
          kind,   \* sub-state of "atom": which lexeme is being read (scope only)
          cur,    \* characters of the lexeme being read
          toks,   \* token sequence so far (LP/RP as <<"LP">>, <<"RP">>)
          stack,  \* stack[1] = top-level forest, stack[i+1] = open list i
          done    \* TRUE: end of text was processed; toks/stack[1] are final

vars == <<text, mode, kind, cur, toks, stack, done>>

(* Is character c allowed next (scope and balance)? *)
Allowed(c) ==
    /\ c = "RP" /\ mode \in {"top", "atom", "strq", "aft"} => Len(stack) > 1
    /\ c = "LP" /\ mode \in {"top", "atom", "strq", "aft"} => Len(stack) <= MaxDepth
    /\ mode = "atom" =>
          \/ c \in Delims /\ AtomComplete(kind)
          \/ c \in AtomChars /\ AtomNext(kind, c) # "none"
    /\ mode = "strq" => c \in Delims \cup {"DQ"}
    /\ mode = "aft"  => c \in Delims
    /\ mode = "top"  => (c \in AtomChars => AtomStart(c) # "none")
    /\ c = "BS" => mode \in {"str", "com"}

Step(c) ==
    LET r == StepF([mode |-> mode, kind |-> kind, cur |-> cur,
                    toks |-> toks, stack |-> stack], c)
    IN /\ mode' = r.mode /\ kind' = r.kind /\ cur' = r.cur
       /\ toks' = r.toks /\ stack' = r.stack

Read1(c) == /\ ~done
            /\ Len(text) < MaxLen
            /\ Allowed(c)
            /\ text' = Append(text, c)
            /\ Step(c)
            /\ UNCHANGED done

(* End of text: only complete, balanced texts are finished. *)
CanFinish == /\ Len(stack) = 1
             /\ \/ mode \in {"top", "aft", "strq", "com"}
                \/ mode = "atom" /\ AtomComplete(kind)

Finish == /\ ~done
          /\ CanFinish
          /\ LET r == FinishF([mode |-> mode, kind |-> kind, cur |-> cur,
                               toks |-> toks, stack |-> stack])
             IN toks' = r.toks /\ stack' = r.stack
          /\ cur' = <<>> /\ mode' = "top" /\ kind' = "none"
          /\ done' = TRUE
          /\ UNCHANGED text

Init == /\ text = <<>> /\ mode = "top" /\ kind = "none" /\ cur = <<>>
        /\ toks = <<>> /\ stack = << <<>> >> /\ done = FALSE

Next == Finish \/ \E c \in Chars : Read1(c)

Spec == Init /\ [][Next]_vars

-----------------------------------------------------------------------------
(* Sanity of the model itself (checked by TLC in every state).              *)

FlatSeq(s) == Tokens(s)

RECURSIVE FlatStack(_)
FlatStack(st) == IF Len(st) = 1 THEN FlatSeq(st[1])
                 ELSE FlatStack(SubSeq(st, 1, Len(st) - 1)) \o <<LP>>
                      \o FlatSeq(st[Len(st)])

(* The token stream and the structure built from it always agree. *)
TokensMatchStructure == toks = FlatStack(stack)

RECURSIVE SumLen(_)
SumLen(s) == IF s = <<>> THEN 0 ELSE Len(Head(s)) + SumLen(Tail(s))

(* No character is lost or invented: every character of the text is in a  *)
(* token, in the lexeme being read, or is a separator (white space outside *)
(* lexemes, or the line break ending a comment).                           *)
NSep == Cardinality({i \in 1..Len(text) : text[i] \in WS})
NoCharInvented == SumLen(toks) + Len(cur) <= Len(text)
                  /\ SumLen(toks) + Len(cur) + NSep >= Len(text)

(* Characters inside string literals and quoted symbols never affect the   *)
(* structure: while in str/bar mode the depth cannot change.               *)
StructureStable ==
    [][(mode \in {"str", "bar"} /\ mode' \in {"str", "bar", "strq"})
         => (Len(stack') = Len(stack) /\ toks' = toks)]_vars

TypeOK == /\ mode \in {"top", "atom", "str", "strq", "bar", "aft", "com"}
          /\ Len(stack) >= 1
          /\ Len(text) <= MaxLen
          /\ done \in BOOLEAN
          /\ (mode = "atom") = (kind # "none")

=============================================================================
