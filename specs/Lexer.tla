------------------------------- MODULE Lexer -------------------------------
(***************************************************************************)
(* The SMT-LIB 2.6 reader as a character-level state machine (C08; the     *)
(* reference for token sequences used by C01, C07, C15).                   *)
(*                                                                         *)
(* Written from the standard (section 3.1 "Lexicon"), not from             *)
(* nodeio.parse_smtlib:                                                    *)
(*   - white space is TAB, LF, CR and space;                               *)
(*   - a comment runs from ';' (outside a string literal / quoted symbol)  *)
(*     to the next line-breaking character (LF or CR);                     *)
(*   - a string literal is delimited by '"', and '""' inside it is an      *)
(*     escaped quote;                                                      *)
(*   - a quoted symbol runs from '|' to the next '|' and may span lines;   *)
(*   - every other lexeme (numeral, decimal, #x.., #b.., simple symbol,    *)
(*     keyword) is a maximal run of non-delimiter characters.              *)
(* ddSMT's convention, fixed by the property: a comment is a separate leaf *)
(* placed where it occurs (in the enclosing list, or at top level).        *)
(*                                                                         *)
(* Characters are class representatives (strings naming the class), a text *)
(* is a sequence of them.  The module is used                              *)
(*   (a) as a generator: TLC enumerates every in-scope text of length      *)
(*       <= MaxLen over Chars; the states with done = TRUE carry the text  *)
(*       and the expected token sequence and forest, and are replayed into *)
(*       nodeio.parse_smtlib;                                              *)
(*   (b) as operators Lex(text) / Read(text) for other modules.            *)
(*                                                                         *)
(* Scope (the property speaks of *separated* lexemes): two atom-like       *)
(* lexemes (atoms, strings, quoted symbols) are never adjacent; they are   *)
(* separated by white space, a parenthesis or a comment.  The generator    *)
(* enforces this in the enabling conditions, nothing is filtered later.    *)
(***************************************************************************)
EXTENDS Naturals, Sequences, FiniteSets, TLC

CONSTANTS Chars,      \* subset of AllChars explored by the generator
          MaxLen,     \* maximal text length
          MaxDepth    \* maximal nesting depth of parentheses

AllChars == {"LP", "RP", "SP", "TAB", "LF", "CR", "DQ", "BAR", "SEMI",
             "A", "D", "HASH", "COLON", "MINUS"}

WS        == {"SP", "TAB", "LF", "CR"}
LineBreak == {"LF", "CR"}
AtomChars == {"A", "D", "HASH", "COLON", "MINUS"}
Delims    == WS \cup {"LP", "RP", "SEMI"}   \* what may follow a lexeme directly

Leaf(d)  == [t |-> "L", d |-> d, k |-> <<>>]
List(k)  == [t |-> "N", d |-> <<>>, k |-> k]

VARIABLES text,   \* the characters read so far
          mode,   \* "top" | "atom" | "str" | "strq" | "bar" | "aft" | "com"
          kind,   \* sub-state of "atom": which lexeme is being read (scope only)
          cur,    \* characters of the lexeme being read
          toks,   \* token sequence so far (LP/RP as <<"LP">>, <<"RP">>)
          stack,  \* stack[1] = top-level forest, stack[i+1] = open list i
          done    \* TRUE: end of text was processed; toks/stack[1] are final

vars == <<text, mode, kind, cur, toks, stack, done>>

-----------------------------------------------------------------------------
(* Structure building *)

Push(st)      == Append(st, <<>>)
AddTo(st, n)  == [st EXCEPT ![Len(st)] = Append(@, n)]
Pop(st)       == LET closed == List(st[Len(st)])
                     rest   == SubSeq(st, 1, Len(st) - 1)
                 IN  AddTo(rest, closed)

(* Finish the lexeme in cur: one token, one leaf in the innermost open list *)
Emit(tk, st, c) == [tk |-> Append(tk, c), st |-> AddTo(st, Leaf(c))]

-----------------------------------------------------------------------------
(* Atom scope automaton: which single lexeme is a run of atom characters.   *)
(*   sym  : A (A|D|MINUS)*            simple symbol                         *)
(*   num  : D+                         numeral                              *)
(*   kw   : COLON A (A|D|MINUS)*       keyword                              *)
(*   hash : HASH A D+                  #b0.. / #x0.. literal                *)
(*   neg  : MINUS                      the symbol "-" , then like sym       *)
AtomStart(c) == CASE c = "A"     -> "sym"
                  [] c = "D"     -> "num"
                  [] c = "COLON" -> "kw0"
                  [] c = "HASH"  -> "hash0"
                  [] c = "MINUS" -> "sym"
                  [] OTHER       -> "none"

AtomNext(kd, c) ==
    CASE kd = "sym"   /\ c \in {"A", "D", "MINUS"} -> "sym"
      [] kd = "num"   /\ c = "D"                   -> "num"
      [] kd = "kw0"   /\ c = "A"                   -> "kw"
      [] kd = "kw"    /\ c \in {"A", "D", "MINUS"} -> "kw"
      [] kd = "hash0" /\ c = "A"                   -> "hash1"
      [] kd = "hash1" /\ c = "D"                   -> "hash"
      [] kd = "hash"  /\ c = "D"                   -> "hash"
      [] OTHER                                     -> "none"

AtomComplete(kd) == kd \in {"sym", "num", "kw", "hash"}

-----------------------------------------------------------------------------
(* One step of the reader at the top of a lexeme boundary (modes top/aft     *)
(* and after a lexeme has just been finished).  Returns the new              *)
(* [mode, kind, cur, toks, stack]; character c is a delimiter or starts a    *)
(* new lexeme.                                                               *)
AtBoundary(c, tk, st) ==
    CASE c \in WS    -> [mode |-> "top", kind |-> "none", cur |-> <<>>,
                         toks |-> tk, stack |-> st]
      [] c = "LP"    -> [mode |-> "top", kind |-> "none", cur |-> <<>>,
                         toks |-> Append(tk, <<"LP">>), stack |-> Push(st)]
      [] c = "RP"    -> [mode |-> "top", kind |-> "none", cur |-> <<>>,
                         toks |-> Append(tk, <<"RP">>), stack |-> Pop(st)]
      [] c = "SEMI"  -> [mode |-> "com", kind |-> "none", cur |-> <<c>>,
                         toks |-> tk, stack |-> st]
      [] c = "DQ"    -> [mode |-> "str", kind |-> "none", cur |-> <<c>>,
                         toks |-> tk, stack |-> st]
      [] c = "BAR"   -> [mode |-> "bar", kind |-> "none", cur |-> <<c>>,
                         toks |-> tk, stack |-> st]
      [] OTHER       -> [mode |-> "atom", kind |-> AtomStart(c), cur |-> <<c>>,
                         toks |-> tk, stack |-> st]

(* Is character c allowed next (scope and balance)? *)
Allowed(c) ==
    /\ c = "RP" /\ mode \in {"top", "atom", "strq", "aft"} => Len(stack) > 1
    /\ c = "LP" /\ mode \in {"top", "atom", "strq", "aft"} => Len(stack) <= MaxDepth
    /\ mode = "atom" =>
          \/ c \in Delims /\ AtomComplete(kind)
          \/ c \in AtomChars /\ AtomNext(kind, c) # "none"
    /\ mode = "strq" => c \in Delims \cup {"DQ"}
    /\ mode = "aft"  => c \in Delims
    /\ mode = "top"  => (c \in AtomChars => AtomStart(c) # "none")

Step(c) ==
    LET r ==
      CASE mode \in {"top", "aft"} -> AtBoundary(c, toks, stack)
        [] mode = "atom" ->
             IF c \in AtomChars
             THEN [mode |-> "atom", kind |-> AtomNext(kind, c),
                   cur |-> Append(cur, c), toks |-> toks, stack |-> stack]
             ELSE LET e == Emit(toks, stack, cur) IN AtBoundary(c, e.tk, e.st)
        [] mode = "str" ->
             [mode |-> IF c = "DQ" THEN "strq" ELSE "str", kind |-> "none",
              cur |-> Append(cur, c), toks |-> toks, stack |-> stack]
        [] mode = "strq" ->
             IF c = "DQ"   \* doubled quote: still inside the literal
             THEN [mode |-> "str", kind |-> "none", cur |-> Append(cur, c),
                   toks |-> toks, stack |-> stack]
             ELSE LET e == Emit(toks, stack, cur) IN AtBoundary(c, e.tk, e.st)
        [] mode = "bar" ->
             IF c = "BAR"
             THEN LET e == Emit(toks, stack, Append(cur, c))
                  IN [mode |-> "aft", kind |-> "none", cur |-> <<>>,
                      toks |-> e.tk, stack |-> e.st]
             ELSE [mode |-> "bar", kind |-> "none", cur |-> Append(cur, c),
                   toks |-> toks, stack |-> stack]
        [] mode = "com" ->
             IF c \in LineBreak
             THEN LET e == Emit(toks, stack, cur)
                  IN [mode |-> "top", kind |-> "none", cur |-> <<>>,
                      toks |-> e.tk, stack |-> e.st]
             ELSE [mode |-> "com", kind |-> "none", cur |-> Append(cur, c),
                   toks |-> toks, stack |-> stack]
    IN /\ mode' = r.mode /\ kind' = r.kind /\ cur' = r.cur
       /\ toks' = r.toks /\ stack' = r.stack

Read1(c) == /\ ~done
            /\ Len(text) < MaxLen
            /\ Allowed(c)
            /\ text' = Append(text, c)
            /\ Step(c)
            /\ UNCHANGED done

(* End of text: only complete, balanced texts are finished. *)
CanFinish == /\ Len(stack) = 1
             /\ \/ mode \in {"top", "aft", "strq", "com"}
                \/ mode = "atom" /\ AtomComplete(kind)

Finish == /\ ~done
          /\ CanFinish
          /\ LET e == IF mode \in {"atom", "strq", "com"}
                      THEN Emit(toks, stack, cur)
                      ELSE [tk |-> toks, st |-> stack]
             IN toks' = e.tk /\ stack' = e.st
          /\ cur' = <<>> /\ mode' = "top" /\ kind' = "none"
          /\ done' = TRUE
          /\ UNCHANGED text

Init == /\ text = <<>> /\ mode = "top" /\ kind = "none" /\ cur = <<>>
        /\ toks = <<>> /\ stack = << <<>> >> /\ done = FALSE

Next == Finish \/ \E c \in Chars : Read1(c)

Spec == Init /\ [][Next]_vars

-----------------------------------------------------------------------------
(* Sanity of the model itself (checked by TLC in every state).              *)

RECURSIVE FlatNode(_), FlatSeq(_)
FlatNode(n) == IF n.t = "L" THEN << n.d >>
               ELSE << <<"LP">> >> \o FlatSeq(n.k) \o << <<"RP">> >>
FlatSeq(s)  == IF s = <<>> THEN <<>> ELSE FlatNode(Head(s)) \o FlatSeq(Tail(s))

RECURSIVE FlatStack(_)
FlatStack(st) == IF Len(st) = 1 THEN FlatSeq(st[1])
                 ELSE FlatStack(SubSeq(st, 1, Len(st) - 1)) \o << <<"LP">> >>
                      \o FlatSeq(st[Len(st)])

(* The token stream and the structure built from it always agree. *)
TokensMatchStructure == toks = FlatStack(stack)

RECURSIVE SumLen(_)
SumLen(s) == IF s = <<>> THEN 0 ELSE Len(Head(s)) + SumLen(Tail(s))

(* No character is lost or invented: every character of the text is in a  *)
(* token, in the lexeme being read, or is a separator (white space outside *)
(* lexemes, or the line break ending a comment).                           *)
NSep == Cardinality({i \in 1..Len(text) : text[i] \in WS})
NoCharInvented == SumLen(toks) + Len(cur) <= Len(text)
                  /\ SumLen(toks) + Len(cur) + NSep >= Len(text)

(* Characters inside string literals and quoted symbols never affect the   *)
(* structure: while in str/bar mode the depth cannot change.               *)
StructureStable ==
    [][(mode \in {"str", "bar"} /\ mode' \in {"str", "bar", "strq"})
         => (Len(stack') = Len(stack) /\ toks' = toks)]_vars

TypeOK == /\ mode \in {"top", "atom", "str", "strq", "bar", "aft", "com"}
          /\ Len(stack) >= 1
          /\ Len(text) <= MaxLen
          /\ done \in BOOLEAN
          /\ (mode = "atom") = (kind # "none")

=============================================================================
