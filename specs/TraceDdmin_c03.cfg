INIT TInit
NEXT TNext
CONSTANTS
  NAtoms = 1
  Workers = {1}
  Par = TRUE
  Shrinks <- TShrinks
INVARIANT TNoStale
INVARIANT TNoRevisit
