INIT TInit
NEXT TNext
CONSTANTS
  Protocol = "trace"
  K = 0
  Chunks = 0
  Accepted <- AcceptedT
INVARIANT OutCompleteT
INVARIANT FinalT
