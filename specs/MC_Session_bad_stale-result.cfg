\* Session.tla, faulty variant stale-result (hybrid): TLC must refute HandOver / FileIsCurrent / ReportTruthful
SPECIFICATION SSpec
CONSTANTS
  Inputs = {1, 2, 3}
  Strategy = "hybrid"
  Faulty = "stale-result"
INVARIANT HandOver
INVARIANT FileIsCurrent
INVARIANT ReportTruthful
