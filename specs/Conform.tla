------------------------------- MODULE Conform ------------------------------
(***************************************************************************)
(* Code -> spec conformance: recorded calls of the implementation are      *)
(* judged by TLC against the reference operators of SExpr / LexerOps.      *)
(*                                                                         *)
(* The harness writes a JSON array of cases (environment variable CASES);  *)
(* each case is a record with a field `kind` and kind-specific fields.     *)
(* TLC walks the array (one state per case) and evaluates Verdict(case),   *)
(* a total function returning "ok" or the name of the failing clause; a    *)
(* failing case prints one line  <<"FAIL", cid, clause>>  which the        *)
(* harness collects.  Run with -workers 1.                                 *)
(*                                                                         *)
(* kinds                                                                   *)
(*   "render": f (forest), text (sequence of characters / class names)     *)
(*             clause tokens: LexText(text) = Tokens(f)                    *)
(*             clause shape : ReadText(text) has the shape of f            *)
(*   "redup" : f, g (forests with identities): ReduplicateOK(f, g)         *)
(*   "idhist": h (per-process sequences of node ids): IdCounter!HistoryOK   *)
(*   "subst" : f, ids (seq of [id, repl]), sts (seq of [key, repl]),       *)
(*             decls, g: tokens of g = tokens of the specified result and  *)
(*             base identities kept                                        *)
(***************************************************************************)
EXTENDS LexerOps, Json, IOUtils

Cases == JsonDeserialize(IOEnv.CASES)

VARIABLE i
cvars == <<i>>

(* Comment tokens are compared without their line terminator: the harness  *)
(* strips it from leaf texts before writing the case.                      *)
VerdictRender(c) ==
    IF ~TextComplete(c.text) THEN "incomplete"
    ELSE IF LexText(c.text) # Tokens(c.f) THEN "tokens"
    ELSE IF Shape(ReadText(c.text)) # Shape(c.f) THEN "shape"
    ELSE "ok"

VerdictRedup(c) ==
    IF Shape(c.g) # Shape(c.f) THEN "tokens"
    ELSE IF ~DistinctIds(c.g) THEN "distinct"
    ELSE IF ~ReduplicateOK(c.f, c.g) THEN "identity"
    ELSE "ok"

IdMapOf(c) == [x \in {c.ids[j].id : j \in 1..Len(c.ids)} |->
                 (CHOOSE r \in {c.ids[j] : j \in 1..Len(c.ids)} : r.id = x).repl]
StMapOf(c) == [j \in 1..Len(c.sts) |-> <<c.sts[j].key, c.sts[j].repl>>]

SetLogic == <<"s", "e", "t", "-", "l", "o", "g", "i", "c">>
SetInfo  == <<"s", "e", "t", "-", "i", "n", "f", "o">>

SpecResult(c) ==
    LET r == SubstF(c.f, IdMapOf(c), StMapOf(c))
    IN IF r = c.f THEN c.f
       ELSE IntroduceVars(r, c.decls, {SetLogic, SetInfo})

VerdictSubst(c) ==
    IF Tokens(SpecResult(c)) # Tokens(c.g) THEN "tokens" ELSE "ok"

(* "decl": a proposal that introduces declarations.                        *)
(*   g: result forest, declared: symbols (character sequences) declared in  *)
(*   the input, fresh: the symbols the proposal declares.                   *)
(* clause fresh   : no declared symbol is already declared in the input     *)
(* clause before  : each is declared in a command before its first use      *)
RECURSIVE LeafSetN(_), LeafSetF(_)
LeafSetN(n) == IF IsLeaf(n) THEN {n.d} ELSE LeafSetF(n.k)
LeafSetF(f) == IF f = <<>> THEN {} ELSE LeafSetN(Head(f)) \cup LeafSetF(Tail(f))

DeclHeads == { <<"d","e","c","l","a","r","e","-","c","o","n","s","t">>,
               <<"d","e","c","l","a","r","e","-","f","u","n">> }
IsDeclOf(n, s) == /\ ~IsLeaf(n) /\ Len(n.k) >= 2 /\ IsLeaf(n.k[1])
                  /\ n.k[1].d \in DeclHeads /\ IsLeaf(n.k[2]) /\ n.k[2].d = s

VerdictDecl(c) ==
    LET fresh == {c.fresh[j] : j \in 1..Len(c.fresh)}
        decl  == {c.declared[j] : j \in 1..Len(c.declared)}
    IN IF fresh \cap decl # {} THEN "fresh"
       ELSE IF \E s \in fresh :
                 LET di == {j \in 1..Len(c.g) : IsDeclOf(c.g[j], s)}
                     ui == {j \in 1..Len(c.g) : ~IsDeclOf(c.g[j], s)
                                                 /\ s \in LeafSetN(c.g[j])}
                 IN di = {} \/ \E u \in ui : \A d \in di : u < d
            THEN "before"
       ELSE "ok"

(* "idhist": h = per-process sequences of node ids handed out to          *)
(* concurrently running processes; accepted iff IdCounter.tla can produce  *)
(* them (IdCounter!HistoryOK)                                              *)
IC == INSTANCE IdCounter WITH Procs <- {}, MaxAlloc <- 0, ReadUnderLock <- TRUE,
                              counter <- 0, lock <- 0, pc <- 0, got <- 0,
                              local <- 0
VerdictIdHist(c) == IF IC!HistoryOK(c.h) THEN "ok" ELSE "ids"

Verdict(c) == CASE c.kind = "render" -> VerdictRender(c)
                [] c.kind = "idhist" -> VerdictIdHist(c)
                [] c.kind = "decl"   -> VerdictDecl(c)
                [] c.kind = "redup"  -> VerdictRedup(c)
                [] c.kind = "subst"  -> VerdictSubst(c)
                [] OTHER             -> "unknown-kind"

Init == i = 0
Next == i < Len(Cases) /\ i' = i + 1
Spec == Init /\ [][Next]_cvars

Judge == i > 0 =>
           LET v == Verdict(Cases[i])
           IN IF v = "ok" THEN TRUE ELSE PrintT(<<"FAIL", Cases[i].cid, v>>)

=============================================================================
