------------------------------- MODULE Conform ------------------------------
(***************************************************************************)
(* Code -> spec conformance: recorded calls of the implementation are      *)
(* judged by TLC against the reference operators of SExpr / LexerOps.      *)
(*                                                                         *)
(* The harness writes a JSON array of cases (environment variable CASES);  *)
(* each case is a record with a field `kind` and kind-specific fields.     *)
(* TLC walks the array (one state per case) and evaluates Verdict(case),   *)
(* a total function returning "ok" or the name of the failing clause; a    *)
(* failing case prints one line  <<"FAIL", cid, clause>>  which the        *)
(* harness collects.  Run with -workers 1.                                 *)
(*                                                                         *)
(* kinds                                                                   *)
(*   "render": f (forest), text (sequence of characters / class names)     *)
(*             clause tokens: LexText(text) = Tokens(f)                    *)
(*             clause shape : ReadText(text) has the shape of f            *)
(*   "redup" : f, g (forests with identities): ReduplicateOK(f, g)         *)
(*   "subst" : f, ids (seq of [id, repl]), sts (seq of [key, repl]),       *)
(*             decls, g: tokens of g = tokens of the specified result and  *)
(*             base identities kept                                        *)
(***************************************************************************)
EXTENDS LexerOps, Json, IOUtils

Cases == JsonDeserialize(IOEnv.CASES)

VARIABLE i
cvars == <<i>>

(* Comment tokens are compared without their line terminator: the harness  *)
(* strips it from leaf texts before writing the case.                      *)
VerdictRender(c) ==
    IF ~TextComplete(c.text) THEN "incomplete"
    ELSE IF LexText(c.text) # Tokens(c.f) THEN "tokens"
    ELSE IF Shape(ReadText(c.text)) # Shape(c.f) THEN "shape"
    ELSE "ok"

VerdictRedup(c) ==
    IF Shape(c.g) # Shape(c.f) THEN "tokens"
    ELSE IF ~DistinctIds(c.g) THEN "distinct"
    ELSE IF ~ReduplicateOK(c.f, c.g) THEN "identity"
    ELSE "ok"

IdMapOf(c) == [x \in {c.ids[j].id : j \in 1..Len(c.ids)} |->
                 (CHOOSE r \in {c.ids[j] : j \in 1..Len(c.ids)} : r.id = x).repl]
StMapOf(c) == [j \in 1..Len(c.sts) |-> <<c.sts[j].key, c.sts[j].repl>>]

SetLogic == <<"s", "e", "t", "-", "l", "o", "g", "i", "c">>
SetInfo  == <<"s", "e", "t", "-", "i", "n", "f", "o">>

SpecResult(c) ==
    LET r == SubstF(c.f, IdMapOf(c), StMapOf(c))
    IN IF r = c.f THEN c.f
       ELSE IntroduceVars(r, c.decls, {SetLogic, SetInfo})

VerdictSubst(c) ==
    IF Tokens(SpecResult(c)) # Tokens(c.g) THEN "tokens" ELSE "ok"

Verdict(c) == CASE c.kind = "render" -> VerdictRender(c)
                [] c.kind = "redup"  -> VerdictRedup(c)
                [] c.kind = "subst"  -> VerdictSubst(c)
                [] OTHER             -> "unknown-kind"

Init == i = 0
Next == i < Len(Cases) /\ i' = i + 1
Spec == Init /\ [][Next]_cvars

Judge == i > 0 =>
           LET v == Verdict(Cases[i])
           IN IF v = "ok" THEN TRUE ELSE PrintT(<<"FAIL", Cases[i].cid, v>>)

=============================================================================
