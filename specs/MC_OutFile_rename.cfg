SPECIFICATION Spec
CONSTANTS
  Protocol = "rename"
  K = 3
  Accepted <- NativeAccepted
  Chunks = 3
INVARIANT OutComplete
INVARIANT FinalIsLast
