------------------------------ MODULE IdCounter -----------------------------
(***************************************************************************)
(* Node identities across processes (C12, C13): every Node takes its id    *)
(* from one counter shared by the main process and the fork-based pool     *)
(* workers (nodes.Node.__get_id: lock, increment, read, unlock).  The      *)
(* steps of one allocation are separate actions so that TLC explores every *)
(* interleaving of the processes; ReadUnderLock = FALSE is the protocol    *)
(* with the read moved out of the critical section, which TLC refutes      *)
(* (MC_IdCounter_bad.cfg: Unique is violated) - the model discriminates.   *)
(*                                                                         *)
(* HistoryOK is the acceptance condition for recorded real histories: the  *)
(* per-process sequences of ids handed out to concurrently running         *)
(* processes are strictly increasing and pairwise disjoint, i.e. some      *)
(* interleaving of Alloc steps of this specification produces them.        *)
(***************************************************************************)
EXTENDS Naturals, Sequences, FiniteSets

CONSTANTS Procs, MaxAlloc, ReadUnderLock

VARIABLES counter, lock, pc, got, local
vars == <<counter, lock, pc, got, local>>

None == "none"

Init == /\ counter = 0 /\ lock = None
        /\ pc = [p \in Procs |-> "idle"]
        /\ got = [p \in Procs |-> <<>>]
        /\ local = [p \in Procs |-> 0]

Acquire(p) == /\ pc[p] = "idle" /\ Len(got[p]) < MaxAlloc /\ lock = None
              /\ lock' = p /\ pc' = [pc EXCEPT ![p] = "incr"]
              /\ UNCHANGED <<counter, got, local>>
Incr(p) == /\ pc[p] = "incr" /\ lock = p
           /\ counter' = counter + 1
           /\ pc' = [pc EXCEPT ![p] = IF ReadUnderLock THEN "read" ELSE "release"]
           /\ UNCHANGED <<lock, got, local>>
Read(p) == /\ pc[p] = "read"
           /\ (ReadUnderLock => lock = p)
           /\ local' = [local EXCEPT ![p] = counter]
           /\ pc' = [pc EXCEPT ![p] = IF ReadUnderLock THEN "release" ELSE "ret"]
           /\ UNCHANGED <<counter, lock, got>>
Release(p) == /\ pc[p] = "release" /\ lock = p
              /\ lock' = None
              /\ pc' = [pc EXCEPT ![p] = IF ReadUnderLock THEN "ret" ELSE "read"]
              /\ UNCHANGED <<counter, got, local>>
Return(p) == /\ pc[p] = "ret"
             /\ got' = [got EXCEPT ![p] = Append(@, local[p])]
             /\ pc' = [pc EXCEPT ![p] = "idle"]
             /\ UNCHANGED <<counter, lock, local>>

Next == \E p \in Procs : Acquire(p) \/ Incr(p) \/ Read(p) \/ Release(p) \/ Return(p)
Spec == Init /\ [][Next]_vars

Ids(p) == {got[p][i] : i \in 1..Len(got[p])}
Unique == /\ \A p, q \in Procs : p # q => Ids(p) \cap Ids(q) = {}
          /\ \A p \in Procs : \A i, j \in 1..Len(got[p]) :
                i < j => got[p][i] < got[p][j]
MutualExclusion == \A p, q \in Procs :
                      p # q => ~(pc[p] \in {"incr"} /\ pc[q] \in {"incr"})

(* acceptance of a recorded history h: sequence (one entry per process)     *)
(* of the sequence of ids that process was handed                           *)
RECURSIVE SumLen(_, _)
SumLen(h, p) == IF p > Len(h) THEN 0 ELSE Len(h[p]) + SumLen(h, p + 1)
HistoryOK(h) ==
    /\ \A p \in 1..Len(h) : \A i \in 1..(Len(h[p]) - 1) : h[p][i] < h[p][i + 1]
    /\ Cardinality(UNION {{h[p][i] : i \in 1..Len(h[p])} : p \in 1..Len(h)})
         = SumLen(h, 1)
=============================================================================
