------------------------------- MODULE SmtSem -------------------------------
(***************************************************************************)
(* Sorts and values of SMT-LIB terms: the ground truth of C16 (SortOf,     *)
(* WidthOf) and C17 (Eval).  Pure operators; no state.                     *)
(*                                                                         *)
(* Written from the SMT-LIB 2.6 theory declarations (Core, Ints, Reals,    *)
(* FixedSizeBitVectors, ArraysEx, FloatingPoint, Strings), the datatype,   *)
(* let and quantifier rules of the standard -- not from ddsmt/smtlib.py.   *)
(*                                                                         *)
(* S-expressions: a leaf is [s |-> "text"], a list is [k |-> <<...>>].     *)
(* Leaf texts are TLA+ strings; their characters are read with SubSeq.     *)
(*                                                                         *)
(* Sorts are tuples whose first component is a tag:                        *)
(*   <<"Bool">> <<"Int">> <<"Real">> <<"String">> <<"RegLan">> <<"RM">>    *)
(*   <<"BV", w>>  <<"FP", eb, sb>>  <<"Array", s1, s2>>                    *)
(*   <<"DT", name>>  <<"U", name>> (declared sort)   Ill == <<"ill">>      *)
(*                                                                         *)
(* Values:  <<"b", 0|1>>  <<"i", n>>  <<"r", num, den>> (den > 0, reduced) *)
(*   <<"v", w, n>> (0 <= n < 2^w)   <<"d", ctor, <<field values>>>>        *)
(*   Unk == <<"?">> : not evaluated (strict: any Unk operand gives Unk).   *)
(***************************************************************************)
EXTENDS Integers, Sequences, FiniteSets, TLC

L(s) == [s |-> s]
N(k) == [k |-> k]
IsLeaf(n) == "s" \in DOMAIN n
IsList(n) == "k" \in DOMAIN n
Arity(n) == Len(n.k)
(* the symbol in head position, "" when there is none *)
HeadSym(n) == IF IsList(n) /\ Len(n.k) >= 1 /\ IsLeaf(n.k[1]) THEN n.k[1].s
              ELSE ""
Args(n) == SubSeq(n.k, 2, Len(n.k))
IsIndexedId(n) == IsList(n) /\ Len(n.k) >= 3 /\ HeadSym(n) = "_"
                  /\ IsLeaf(n.k[2])

-----------------------------------------------------------------------------
(* Lexical classes of leaves                                                *)
Ch(s, i) == SubSeq(s, i, i)
Digits == {"0", "1", "2", "3", "4", "5", "6", "7", "8", "9"}
HexLow == {"a", "b", "c", "d", "e", "f"}
HexUp  == {"A", "B", "C", "D", "E", "F"}
DV == ("0" :> 0) @@ ("1" :> 1) @@ ("2" :> 2) @@ ("3" :> 3) @@ ("4" :> 4) @@
      ("5" :> 5) @@ ("6" :> 6) @@ ("7" :> 7) @@ ("8" :> 8) @@ ("9" :> 9) @@
      ("a" :> 10) @@ ("b" :> 11) @@ ("c" :> 12) @@ ("d" :> 13) @@
      ("e" :> 14) @@ ("f" :> 15) @@ ("A" :> 10) @@ ("B" :> 11) @@
      ("C" :> 12) @@ ("D" :> 13) @@ ("E" :> 14) @@ ("F" :> 15)

StartsWith(s, p) == Len(s) >= Len(p) /\ SubSeq(s, 1, Len(p)) = p
AllIn(s, from, S) == \A i \in from..Len(s) : Ch(s, i) \in S
IsNumeral(s) == Len(s) >= 1 /\ AllIn(s, 1, Digits)
DotPos(s) == {i \in 1..Len(s) : Ch(s, i) = "."}
IsDecimal(s) == /\ Cardinality(DotPos(s)) = 1
                /\ LET p == CHOOSE i \in DotPos(s) : TRUE
                   IN /\ p > 1 /\ p < Len(s)
                      /\ \A i \in (1..Len(s)) \ {p} : Ch(s, i) \in Digits
IsBin(s) == Len(s) >= 3 /\ StartsWith(s, "#b") /\ AllIn(s, 3, {"0", "1"})
IsHex(s) == Len(s) >= 3 /\ StartsWith(s, "#x")
            /\ AllIn(s, 3, Digits \cup HexLow \cup HexUp)
IsStrLit(s) == Len(s) >= 2 /\ Ch(s, 1) = "\"" /\ Ch(s, Len(s)) = "\""

(* a leaf that can be bound: a symbol, not a literal, keyword or reserved   *)
(* word                                                                    *)
IsSymbol(s) == /\ Len(s) >= 1 /\ Ch(s, 1) \notin Digits \cup {":", "#", "\""}
               /\ s \notin {"true", "false", "_", "!", "as", "let", "forall",
                             "exists", "match", "par"}

RECURSIVE NumIn(_, _, _, _)
(* value of characters from..to of s in the given base *)
NumIn(s, from, to, base) ==
    IF to < from THEN 0
    ELSE base * NumIn(s, from, to - 1, base) + DV[Ch(s, to)]
NatOf(s) == NumIn(s, 1, Len(s), 10)

RECURSIVE Pow(_, _)
Pow(b, n) == IF n = 0 THEN 1 ELSE b * Pow(b, n - 1)
Pow2(n) == Pow(2, n)

-----------------------------------------------------------------------------
(* Sorts                                                                    *)
SBool == <<"Bool">>
SInt  == <<"Int">>
SReal == <<"Real">>
SStr  == <<"String">>
SReg  == <<"RegLan">>
SRM   == <<"RM">>
BV(w) == <<"BV", w>>
FP(e, s) == <<"FP", e, s>>
Arr(a, b) == <<"Array", a, b>>
DT(n) == <<"DT", n>>
Ill == <<"ill">>
IsBV(s) == s[1] = "BV"
IsFP(s) == s[1] = "FP"
IsArr(s) == s[1] = "Array"
IsDT(s) == s[1] = "DT"

(* The global environment built from the commands of a script.             *)
(*   funs  : name -> [ps |-> <<param sorts>>, r |-> result sort]           *)
(*   defs  : name -> [pn |-> <<param names>>, body |-> term]               *)
(*   ctors : name -> [dt |-> datatype name, sels |-> <<names>>,            *)
(*                    fs |-> <<field sorts>>]                              *)
(*   sels  : name -> [dt, ctor, idx, r]                                    *)
(*   dts   : set of datatype names;  us : set of declared sort names       *)
EmptyFn == [x \in {} |-> 0]
EmptyEnv == [funs |-> EmptyFn, defs |-> EmptyFn, ctors |-> EmptyFn,
             sels |-> EmptyFn, dts |-> {}, us |-> {}]

RECURSIVE SortVal(_, _)
(* the sort denoted by the sort expression sx; Ill if it is none we know *)
SortVal(sx, env) ==
    IF IsLeaf(sx) THEN
        CASE sx.s = "Bool" -> SBool
          [] sx.s = "Int" -> SInt
          [] sx.s = "Real" -> SReal
          [] sx.s = "String" -> SStr
          [] sx.s = "RegLan" -> SReg
          [] sx.s = "RoundingMode" -> SRM
          [] sx.s = "Float16" -> FP(5, 11)
          [] sx.s = "Float32" -> FP(8, 24)
          [] sx.s = "Float64" -> FP(11, 53)
          [] sx.s = "Float128" -> FP(15, 113)
          [] sx.s \in env.dts -> DT(sx.s)
          [] sx.s \in env.us -> <<"U", sx.s>>
          [] OTHER -> Ill
    ELSE IF IsIndexedId(sx) /\ sx.k[2].s = "BitVec" /\ Len(sx.k) = 3
            /\ IsLeaf(sx.k[3]) /\ IsNumeral(sx.k[3].s)
            /\ NatOf(sx.k[3].s) >= 1
         THEN BV(NatOf(sx.k[3].s))
    ELSE IF IsIndexedId(sx) /\ sx.k[2].s = "FloatingPoint" /\ Len(sx.k) = 4
            /\ IsLeaf(sx.k[3]) /\ IsNumeral(sx.k[3].s)
            /\ IsLeaf(sx.k[4]) /\ IsNumeral(sx.k[4].s)
            /\ NatOf(sx.k[3].s) >= 2 /\ NatOf(sx.k[4].s) >= 2
         THEN FP(NatOf(sx.k[3].s), NatOf(sx.k[4].s))
    ELSE IF HeadSym(sx) = "Array" /\ Len(sx.k) = 3 THEN
        LET a == SortVal(sx.k[2], env)
            b == SortVal(sx.k[3], env)
        IN IF a = Ill \/ b = Ill THEN Ill ELSE Arr(a, b)
    ELSE Ill

(* binder lists ((x S) ...) *)
IsSortedVar(b) == IsList(b) /\ Len(b.k) = 2 /\ IsLeaf(b.k[1])
                  /\ IsSymbol(b.k[1].s)
IsSortedVarList(bl) == IsList(bl) /\ \A i \in 1..Len(bl.k) : IsSortedVar(bl.k[i])

(* constructor declaration (c (sel S) ...) of datatype dt *)
CtorOk(c) == IsList(c) /\ Len(c.k) >= 1 /\ IsLeaf(c.k[1])
             /\ \A i \in 2..Len(c.k) : IsSortedVar(c.k[i])

AddDatatype(env, name, ctorlist) ==
    \* the datatype may be recursive: its name is a sort while its fields are read
    LET env1 == [env EXCEPT !.dts = @ \cup {name}]
        cs == {i \in 1..Len(ctorlist.k) : CtorOk(ctorlist.k[i])}
        ctorRec(c) == [dt |-> name,
                       sels |-> [j \in 1..(Len(c.k) - 1) |-> c.k[j + 1].k[1].s],
                       fs |-> [j \in 1..(Len(c.k) - 1) |->
                                 SortVal(c.k[j + 1].k[2], env1)]]
        newc == [n \in {ctorlist.k[i].k[1].s : i \in cs} |->
                   ctorRec(CHOOSE c \in {ctorlist.k[i] : i \in cs} : c.k[1].s = n)]
        selpairs == UNION {{<<ctorlist.k[i], j>> : j \in 2..Len(ctorlist.k[i].k)} : i \in cs}
        news == [n \in {p[1].k[p[2]].k[1].s : p \in selpairs} |->
                   LET p == CHOOSE q \in selpairs : q[1].k[q[2]].k[1].s = n
                   IN [dt |-> name, ctor |-> p[1].k[1].s, idx |-> p[2] - 1,
                       r |-> SortVal(p[1].k[p[2]].k[2], env1)]]
    IN [env1 EXCEPT !.ctors = newc @@ @, !.sels = news @@ @]

RECURSIVE AddDatatypesFrom(_, _, _, _)
AddDatatypesFrom(env, decls, ctorlists, i) ==
    IF i > Len(decls) THEN env
    ELSE AddDatatypesFrom(AddDatatype(env, decls[i].k[1].s, ctorlists[i]),
                          decls, ctorlists, i + 1)

AddCommand(env, c) ==
    LET h == HeadSym(c)
    IN CASE h = "declare-const" /\ Len(c.k) = 3 /\ IsLeaf(c.k[2]) ->
              [env EXCEPT !.funs = (c.k[2].s :> [ps |-> <<>>,
                                      r |-> SortVal(c.k[3], env)]) @@ @]
         [] h = "declare-fun" /\ Len(c.k) = 4 /\ IsLeaf(c.k[2])
            /\ IsList(c.k[3]) ->
              [env EXCEPT !.funs = (c.k[2].s :>
                  [ps |-> [i \in 1..Len(c.k[3].k) |-> SortVal(c.k[3].k[i], env)],
                   r |-> SortVal(c.k[4], env)]) @@ @]
         [] h \in {"define-fun", "define-fun-rec"} /\ Len(c.k) = 5
            /\ IsLeaf(c.k[2]) /\ IsSortedVarList(c.k[3]) ->
              [env EXCEPT
                 !.funs = (c.k[2].s :>
                   [ps |-> [i \in 1..Len(c.k[3].k) |->
                              SortVal(c.k[3].k[i].k[2], env)],
                    r |-> SortVal(c.k[4], env)]) @@ @,
                 !.defs = (c.k[2].s :>
                   [pn |-> [i \in 1..Len(c.k[3].k) |-> c.k[3].k[i].k[1].s],
                    body |-> c.k[5]]) @@ @]
         [] h = "declare-sort" /\ Len(c.k) = 3 /\ IsLeaf(c.k[2])
            /\ IsLeaf(c.k[3]) /\ c.k[3].s = "0" ->
              [env EXCEPT !.us = @ \cup {c.k[2].s}]
         [] h = "declare-datatype" /\ Len(c.k) = 3 /\ IsLeaf(c.k[2])
            /\ IsList(c.k[3]) ->
              AddDatatype(env, c.k[2].s, c.k[3])
         [] h = "declare-datatypes" /\ Len(c.k) = 3 /\ IsList(c.k[2])
            /\ IsList(c.k[3]) /\ Len(c.k[2].k) = Len(c.k[3].k)
            /\ \A i \in 1..Len(c.k[2].k) :
                 /\ IsList(c.k[2].k[i]) /\ Len(c.k[2].k[i].k) = 2
                 /\ IsLeaf(c.k[2].k[i].k[1]) /\ IsLeaf(c.k[2].k[i].k[2])
                 /\ c.k[2].k[i].k[2].s = "0" /\ IsList(c.k[3].k[i]) ->
              \* all sort names first (the datatypes may be mutually recursive)
              AddDatatypesFrom(
                [env EXCEPT !.dts = @ \cup {c.k[2].k[i].k[1].s : i \in 1..Len(c.k[2].k)}],
                c.k[2].k, c.k[3].k, 1)
         [] OTHER -> env

RECURSIVE EnvFrom(_, _, _)
EnvFrom(script, i, env) ==
    IF i > Len(script) THEN env
    ELSE EnvFrom(script, i + 1, AddCommand(env, script[i]))
EnvOf(script) == EnvFrom(script, 1, EmptyEnv)

-----------------------------------------------------------------------------
(* Typing rules: result sort of operator `op` with indices `ix` (sequence  *)
(* of naturals) applied to arguments of sorts `as`; Ill if not well-sorted *)
SeqAll(as, P(_)) == \A i \in 1..Len(as) : P(as[i])
AllSame(as) == Len(as) >= 1 /\ as[1] # Ill /\ \A i \in 1..Len(as) : as[i] = as[1]
AllAre(as, s) == \A i \in 1..Len(as) : as[i] = s

BVBinSame == {"bvand", "bvor", "bvadd", "bvmul", "bvudiv", "bvurem", "bvshl",
              "bvlshr", "bvnand", "bvnor", "bvxor", "bvxnor", "bvsub",
              "bvsdiv", "bvsrem", "bvsmod", "bvashr"}
BVLeftAssoc == {"bvand", "bvor", "bvadd", "bvmul", "bvxor"}
BVRel == {"bvult", "bvule", "bvugt", "bvuge", "bvslt", "bvsle", "bvsgt", "bvsge"}
FPUn == {"fp.abs", "fp.neg"}
FPBin == {"fp.rem", "fp.min", "fp.max"}
FPRmBin == {"fp.add", "fp.sub", "fp.mul", "fp.div"}
FPRmUn == {"fp.sqrt", "fp.roundToIntegral"}
FPRel == {"fp.leq", "fp.lt", "fp.geq", "fp.gt", "fp.eq"}
FPPred == {"fp.isNormal", "fp.isSubnormal", "fp.isZero", "fp.isInfinite",
           "fp.isNaN", "fp.isNegative", "fp.isPositive"}
StrStrBool == {"str.<", "str.<=", "str.prefixof", "str.suffixof", "str.contains"}
ReN == {"re.++", "re.union", "re.inter"}
ReUn == {"re.*", "re.+", "re.opt", "re.comp"}

ResSort(op, ix, as) ==
    LET n == Len(as)
        nix == Len(ix)
    IN
    CASE \* ---- Core
         op = "not" /\ nix = 0 -> IF n = 1 /\ as[1] = SBool THEN SBool ELSE Ill
      [] op \in {"and", "or", "xor", "=>"} /\ nix = 0 ->
           IF n >= 2 /\ AllAre(as, SBool) THEN SBool ELSE Ill
      [] op \in {"=", "distinct"} /\ nix = 0 ->
           IF n >= 2 /\ AllSame(as) THEN SBool ELSE Ill
      [] op = "ite" /\ nix = 0 ->
           IF n = 3 /\ as[1] = SBool /\ as[2] = as[3] /\ as[2] # Ill
           THEN as[2] ELSE Ill
         \* ---- Ints / Reals
      [] op \in {"+", "*"} /\ nix = 0 ->
           IF n >= 2 /\ AllAre(as, SInt) THEN SInt
           ELSE IF n >= 2 /\ AllAre(as, SReal) THEN SReal ELSE Ill
      [] op = "-" /\ nix = 0 ->
           IF n >= 1 /\ AllAre(as, SInt) THEN SInt
           ELSE IF n >= 1 /\ AllAre(as, SReal) THEN SReal ELSE Ill
      [] op \in {"div", "mod"} /\ nix = 0 ->
           IF AllAre(as, SInt) /\ (n = 2 \/ (op = "div" /\ n >= 2))
           THEN SInt ELSE Ill
      [] op = "abs" /\ nix = 0 -> IF n = 1 /\ as[1] = SInt THEN SInt ELSE Ill
      [] op = "/" /\ nix = 0 ->
           IF n >= 2 /\ AllAre(as, SReal) THEN SReal ELSE Ill
      [] op \in {"<", "<=", ">", ">="} /\ nix = 0 ->
           IF n >= 2 /\ (AllAre(as, SInt) \/ AllAre(as, SReal)) THEN SBool
           ELSE Ill
      [] op = "to_real" /\ nix = 0 ->
           IF n = 1 /\ as[1] = SInt THEN SReal ELSE Ill
      [] op = "to_int" /\ nix = 0 ->
           IF n = 1 /\ as[1] = SReal THEN SInt ELSE Ill
      [] op = "is_int" /\ nix = 0 ->
           IF n = 1 /\ as[1] = SReal THEN SBool ELSE Ill
      [] op = "divisible" ->
           IF nix = 1 /\ ix[1] >= 1 /\ n = 1 /\ as[1] = SInt THEN SBool ELSE Ill
         \* ---- FixedSizeBitVectors
      [] op = "concat" /\ nix = 0 ->
           IF n = 2 /\ IsBV(as[1]) /\ IsBV(as[2])
           THEN BV(as[1][2] + as[2][2]) ELSE Ill
      [] op = "extract" ->
           IF nix = 2 /\ n = 1 /\ IsBV(as[1]) /\ as[1][2] > ix[1]
              /\ ix[1] >= ix[2]
           THEN BV(ix[1] - ix[2] + 1) ELSE Ill
      [] op \in {"bvnot", "bvneg"} /\ nix = 0 ->
           IF n = 1 /\ IsBV(as[1]) THEN as[1] ELSE Ill
      [] op \in BVBinSame /\ nix = 0 ->
           IF (n = 2 \/ (n >= 2 /\ op \in BVLeftAssoc)) /\ IsBV(as[1])
              /\ AllSame(as)
           THEN as[1] ELSE Ill
      [] op = "bvcomp" /\ nix = 0 ->
           IF n = 2 /\ IsBV(as[1]) /\ as[2] = as[1] THEN BV(1) ELSE Ill
      [] op \in BVRel /\ nix = 0 ->
           IF n = 2 /\ IsBV(as[1]) /\ as[2] = as[1] THEN SBool ELSE Ill
      [] op = "repeat" ->
           IF nix = 1 /\ ix[1] >= 1 /\ n = 1 /\ IsBV(as[1])
           THEN BV(ix[1] * as[1][2]) ELSE Ill
      [] op \in {"zero_extend", "sign_extend"} ->
           IF nix = 1 /\ n = 1 /\ IsBV(as[1]) THEN BV(as[1][2] + ix[1]) ELSE Ill
      [] op \in {"rotate_left", "rotate_right"} ->
           IF nix = 1 /\ n = 1 /\ IsBV(as[1]) THEN as[1] ELSE Ill
         \* ---- ArraysEx
      [] op = "select" /\ nix = 0 ->
           IF n = 2 /\ IsArr(as[1]) /\ as[2] = as[1][2] THEN as[1][3] ELSE Ill
      [] op = "store" /\ nix = 0 ->
           IF n = 3 /\ IsArr(as[1]) /\ as[2] = as[1][2] /\ as[3] = as[1][3]
           THEN as[1] ELSE Ill
         \* ---- FloatingPoint
      [] op = "fp" /\ nix = 0 ->
           IF n = 3 /\ as[1] = BV(1) /\ IsBV(as[2]) /\ IsBV(as[3])
              /\ as[2][2] >= 2 /\ as[3][2] >= 1
           THEN FP(as[2][2], as[3][2] + 1) ELSE Ill
      [] op \in FPUn /\ nix = 0 -> IF n = 1 /\ IsFP(as[1]) THEN as[1] ELSE Ill
      [] op \in FPBin /\ nix = 0 ->
           IF n = 2 /\ IsFP(as[1]) /\ as[2] = as[1] THEN as[1] ELSE Ill
      [] op \in FPRmBin /\ nix = 0 ->
           IF n = 3 /\ as[1] = SRM /\ IsFP(as[2]) /\ as[3] = as[2]
           THEN as[2] ELSE Ill
      [] op \in FPRmUn /\ nix = 0 ->
           IF n = 2 /\ as[1] = SRM /\ IsFP(as[2]) THEN as[2] ELSE Ill
      [] op = "fp.fma" /\ nix = 0 ->
           IF n = 4 /\ as[1] = SRM /\ IsFP(as[2]) /\ as[3] = as[2]
              /\ as[4] = as[2]
           THEN as[2] ELSE Ill
      [] op \in FPRel /\ nix = 0 ->
           IF n >= 2 /\ IsFP(as[1]) /\ AllSame(as) THEN SBool ELSE Ill
      [] op \in FPPred /\ nix = 0 ->
           IF n = 1 /\ IsFP(as[1]) THEN SBool ELSE Ill
      [] op = "fp.to_real" /\ nix = 0 ->
           IF n = 1 /\ IsFP(as[1]) THEN SReal ELSE Ill
      [] op = "to_fp" ->
           IF nix = 2 /\ ix[1] >= 2 /\ ix[2] >= 2 /\
              \/ n = 1 /\ as[1] = BV(ix[1] + ix[2])
              \/ n = 2 /\ as[1] = SRM /\ (IsFP(as[2]) \/ as[2] = SReal
                                          \/ IsBV(as[2]))
           THEN FP(ix[1], ix[2]) ELSE Ill
      [] op = "to_fp_unsigned" ->
           IF nix = 2 /\ ix[1] >= 2 /\ ix[2] >= 2 /\ n = 2 /\ as[1] = SRM
              /\ IsBV(as[2])
           THEN FP(ix[1], ix[2]) ELSE Ill
      [] op \in {"fp.to_ubv", "fp.to_sbv"} ->
           IF nix = 1 /\ ix[1] >= 1 /\ n = 2 /\ as[1] = SRM /\ IsFP(as[2])
           THEN BV(ix[1]) ELSE Ill
         \* ---- Strings
      [] op = "str.++" /\ nix = 0 ->
           IF n >= 2 /\ AllAre(as, SStr) THEN SStr ELSE Ill
      [] op = "str.len" /\ nix = 0 ->
           IF n = 1 /\ as[1] = SStr THEN SInt ELSE Ill
      [] op \in StrStrBool /\ nix = 0 ->
           IF n = 2 /\ AllAre(as, SStr) THEN SBool ELSE Ill
      [] op = "str.at" /\ nix = 0 ->
           IF as = <<SStr, SInt>> THEN SStr ELSE Ill
      [] op = "str.substr" /\ nix = 0 ->
           IF as = <<SStr, SInt, SInt>> THEN SStr ELSE Ill
      [] op = "str.indexof" /\ nix = 0 ->
           IF as = <<SStr, SStr, SInt>> THEN SInt ELSE Ill
      [] op \in {"str.replace", "str.replace_all"} /\ nix = 0 ->
           IF as = <<SStr, SStr, SStr>> THEN SStr ELSE Ill
      [] op \in {"str.replace_re", "str.replace_re_all"} /\ nix = 0 ->
           IF as = <<SStr, SReg, SStr>> THEN SStr ELSE Ill
      [] op = "str.is_digit" /\ nix = 0 ->
           IF as = <<SStr>> THEN SBool ELSE Ill
      [] op \in {"str.to_code", "str.to_int"} /\ nix = 0 ->
           IF as = <<SStr>> THEN SInt ELSE Ill
      [] op \in {"str.from_code", "str.from_int"} /\ nix = 0 ->
           IF as = <<SInt>> THEN SStr ELSE Ill
      [] op = "str.in_re" /\ nix = 0 ->
           IF as = <<SStr, SReg>> THEN SBool ELSE Ill
      [] op = "str.to_re" /\ nix = 0 ->
           IF as = <<SStr>> THEN SReg ELSE Ill
      [] op \in ReN /\ nix = 0 ->
           IF n >= 2 /\ AllAre(as, SReg) THEN SReg ELSE Ill
      [] op \in ReUn /\ nix = 0 ->
           IF as = <<SReg>> THEN SReg ELSE Ill
      [] op = "re.diff" /\ nix = 0 ->
           IF as = <<SReg, SReg>> THEN SReg ELSE Ill
      [] op = "re.range" /\ nix = 0 ->
           IF as = <<SStr, SStr>> THEN SReg ELSE Ill
      [] op = "re.^" -> IF nix = 1 /\ as = <<SReg>> THEN SReg ELSE Ill
      [] op = "re.loop" -> IF nix = 2 /\ as = <<SReg>> THEN SReg ELSE Ill
      [] OTHER -> Ill

(* operators of the theories above (their names are not available to      *)
(* declarations in a well-formed script)                                   *)

RMNames == {"RNE", "RNA", "RTP", "RTN", "RTZ", "roundNearestTiesToEven",
            "roundNearestTiesToAway", "roundTowardPositive",
            "roundTowardNegative", "roundTowardZero"}
FPSpecial == {"+oo", "-oo", "+zero", "-zero", "NaN"}

IsNatLeaf(x) == IsLeaf(x) /\ IsNumeral(x.s)
(* indices of an indexed identifier (_ name i1 ...) as naturals, <<>> if    *)
(* some index is not a numeral                                              *)
IdxOf(id) == IF \A i \in 3..Len(id.k) : IsNatLeaf(id.k[i])
             THEN [i \in 1..(Len(id.k) - 2) |-> NatOf(id.k[i + 2].s)]
             ELSE <<>>

(* local environments: functions from names to sorts (SortOf) or values    *)
Bind(loc, name, x) == (name :> x) @@ loc

RECURSIVE SortOf(_, _, _)
(* The sort of term t under global environment env and local sorts loc     *)
SortOf(t, env, loc) ==
    IF IsLeaf(t) THEN
        LET s == t.s
        IN CASE s \in DOMAIN loc -> loc[s]
             [] s \in DOMAIN env.funs ->
                  IF env.funs[s].ps = <<>> THEN env.funs[s].r ELSE Ill
             [] s \in DOMAIN env.ctors ->
                  IF env.ctors[s].fs = <<>> THEN DT(env.ctors[s].dt) ELSE Ill
             [] s \in {"true", "false"} -> SBool
             [] IsNumeral(s) -> SInt
             [] IsDecimal(s) -> SReal
             [] IsBin(s) -> BV(Len(s) - 2)
             [] IsHex(s) -> BV(4 * (Len(s) - 2))
             [] IsStrLit(s) -> SStr
             [] s \in RMNames -> SRM
             [] s \in {"re.none", "re.all", "re.allchar"} -> SReg
             [] OTHER -> Ill
    ELSE IF Len(t.k) = 0 THEN Ill
    ELSE IF IsIndexedId(t) THEN
        \* (_ bvN w), (_ +oo e s) ...: indexed identifiers that are terms
        LET nm == t.k[2].s
            ix == IdxOf(t)
        IN IF StartsWith(nm, "bv") /\ Len(nm) >= 3 /\ IsNumeral(SubSeq(nm, 3, Len(nm)))
              /\ Len(ix) = 1 /\ Len(t.k) = 3 /\ ix[1] >= 1
           THEN BV(ix[1])
           ELSE IF nm \in FPSpecial /\ Len(ix) = 2 /\ Len(t.k) = 4 THEN FP(ix[1], ix[2])
           ELSE Ill
    ELSE IF IsList(t.k[1]) THEN
        \* ((_ op i ...) args) and ((as const S) v)
        LET hd == t.k[1]
        IN IF IsIndexedId(hd) THEN
               IF hd.k[2].s = "is" /\ Len(hd.k) = 3 /\ IsLeaf(hd.k[3]) THEN
                   \* tester
                   IF Len(t.k) = 2 /\ hd.k[3].s \in DOMAIN env.ctors
                      /\ SortOf(t.k[2], env, loc) = DT(env.ctors[hd.k[3].s].dt)
                   THEN SBool ELSE Ill
               ELSE
               LET ix == IdxOf(hd)
               IN IF Len(ix) # Len(hd.k) - 2 THEN Ill
                  ELSE ResSort(hd.k[2].s, ix,
                               [i \in 1..(Len(t.k) - 1) |-> SortOf(t.k[i + 1], env, loc)])
           ELSE IF HeadSym(hd) = "as" /\ Len(hd.k) = 3 /\ IsLeaf(hd.k[2])
                   /\ hd.k[2].s = "const" /\ Len(t.k) = 2 THEN
               LET a == SortVal(hd.k[3], env)
               IN IF IsArr(a) /\ SortOf(t.k[2], env, loc) = a[3] THEN a ELSE Ill
           ELSE Ill
    ELSE
        LET h == t.k[1].s
            n == Len(t.k) - 1
        IN
        CASE h = "let" ->
               IF n = 2 /\ IsList(t.k[2])
                  /\ \A i \in 1..Len(t.k[2].k) :
                       /\ IsList(t.k[2].k[i]) /\ Len(t.k[2].k[i].k) = 2
                       /\ IsLeaf(t.k[2].k[i].k[1])
                       /\ IsSymbol(t.k[2].k[i].k[1].s)
               THEN LET bs == t.k[2].k
                        srt == [i \in 1..Len(bs) |-> SortOf(bs[i].k[2], env, loc)]
                        names == {bs[i].k[1].s : i \in 1..Len(bs)}
                        loc2 == [x \in names |->
                                   srt[CHOOSE i \in 1..Len(bs) : bs[i].k[1].s = x]] @@ loc
                    IN IF \E i \in 1..Len(bs) : srt[i] = Ill THEN Ill
                       ELSE SortOf(t.k[3], env, loc2)
               ELSE Ill
          [] h \in {"forall", "exists"} ->
               IF n = 2 /\ IsSortedVarList(t.k[2]) /\ Len(t.k[2].k) >= 1
               THEN LET bs == t.k[2].k
                        names == {bs[i].k[1].s : i \in 1..Len(bs)}
                        loc2 == [x \in names |->
                                   SortVal((CHOOSE b \in {bs[i] : i \in 1..Len(bs)} :
                                              b.k[1].s = x).k[2], env)] @@ loc
                    IN IF \E x \in names : loc2[x] = Ill THEN Ill
                       ELSE IF SortOf(t.k[3], env, loc2) = SBool THEN SBool ELSE Ill
               ELSE Ill
          [] h = "!" -> IF n >= 1 THEN SortOf(t.k[2], env, loc) ELSE Ill
          [] h \in DOMAIN loc -> Ill  \* bound variables are not applied
          [] h \in DOMAIN env.funs ->
               LET f == env.funs[h]
               IN IF n = Len(f.ps) /\ n >= 1
                     /\ \A i \in 1..n : f.ps[i] # Ill
                                        /\ SortOf(t.k[i + 1], env, loc) = f.ps[i]
                  THEN f.r ELSE Ill
          [] h \in DOMAIN env.ctors ->
               LET c == env.ctors[h]
               IN IF n = Len(c.fs) /\ n >= 1
                     /\ \A i \in 1..n : c.fs[i] # Ill
                                        /\ SortOf(t.k[i + 1], env, loc) = c.fs[i]
                  THEN DT(c.dt) ELSE Ill
          [] h \in DOMAIN env.sels ->
               IF n = 1 /\ SortOf(t.k[2], env, loc) = DT(env.sels[h].dt)
               THEN env.sels[h].r ELSE Ill
          [] OTHER ->
               ResSort(h, <<>>, [i \in 1..n |-> SortOf(t.k[i + 1], env, loc)])

WidthOf(t, env, loc) == LET s == SortOf(t, env, loc)
                        IN IF IsBV(s) THEN s[2] ELSE -1

-----------------------------------------------------------------------------
(* Term positions.  Annot(t, env, loc, path) is the sequence of            *)
(* <<path, sort>> for t and every subterm in term position (operator       *)
(* heads, indexed identifiers in head position, sort expressions, binder   *)
(* names and indices are not terms), in pre-order.  A path is the sequence *)
(* of 1-based child indices from the root.                                 *)
RECURSIVE Annot(_, _, _, _), AnnotSeq(_, _, _, _, _)
AnnotSeq(t, env, loc, path, i) ==
    IF i > Len(t.k) THEN <<>>
    ELSE Annot(t.k[i], env, loc, Append(path, i)) \o AnnotSeq(t, env, loc, path, i + 1)

RECURSIVE AnnotBinds(_, _, _, _, _)
AnnotBinds(bl, env, loc, path, i) ==
    IF i > Len(bl.k) THEN <<>>
    ELSE Annot(bl.k[i].k[2], env, loc, path \o <<i, 2>>)
         \o AnnotBinds(bl, env, loc, path, i + 1)

Annot(t, env, loc, path) ==
    LET me == << <<path, SortOf(t, env, loc)>> >>
    IN IF IsLeaf(t) \/ Len(t.k) = 0 \/ IsIndexedId(t) THEN me
       ELSE IF IsList(t.k[1]) THEN me \o AnnotSeq(t, env, loc, path, 2)
       ELSE LET h == t.k[1].s
            IN IF h = "let" /\ SortOf(t, env, loc) # Ill THEN
                   LET bs == t.k[2].k
                       names == {bs[i].k[1].s : i \in 1..Len(bs)}
                       loc2 == [x \in names |->
                                  SortOf((CHOOSE b \in {bs[i] : i \in 1..Len(bs)} :
                                            b.k[1].s = x).k[2], env, loc)] @@ loc
                   IN me \o AnnotBinds(t.k[2], env, loc, Append(path, 2), 1)
                         \o Annot(t.k[3], env, loc2, Append(path, 3))
               ELSE IF h \in {"forall", "exists"} /\ SortOf(t, env, loc) # Ill THEN
                   LET bs == t.k[2].k
                       names == {bs[i].k[1].s : i \in 1..Len(bs)}
                       loc2 == [x \in names |->
                                  SortVal((CHOOSE b \in {bs[i] : i \in 1..Len(bs)} :
                                             b.k[1].s = x).k[2], env)] @@ loc
                   IN me \o Annot(t.k[3], env, loc2, Append(path, 3))
               ELSE IF h = "!" /\ Len(t.k) >= 2 THEN
                   me \o Annot(t.k[2], env, loc, Append(path, 2))
               ELSE IF h \in {"let", "forall", "exists"} THEN me
               ELSE me \o AnnotSeq(t, env, loc, path, 2)

(* term positions of a command: assert bodies, define-fun bodies (under    *)
(* their parameters)                                                       *)
AnnotCommand(c, env, ci) ==
    LET h == HeadSym(c)
    IN IF h = "assert" /\ Len(c.k) = 2 THEN Annot(c.k[2], env, EmptyFn, <<ci, 2>>)
       ELSE IF h \in {"define-fun", "define-fun-rec"} /\ Len(c.k) = 5
               /\ IsSortedVarList(c.k[3]) THEN
           LET bs == c.k[3].k
               names == {bs[i].k[1].s : i \in 1..Len(bs)}
               loc == [x \in names |->
                         SortVal((CHOOSE b \in {bs[i] : i \in 1..Len(bs)} :
                                    b.k[1].s = x).k[2], env)]
           IN Annot(c.k[5], env, loc, <<ci, 5>>)
       ELSE <<>>

RECURSIVE AnnotScriptFrom(_, _, _)
AnnotScriptFrom(script, env, i) ==
    IF i > Len(script) THEN <<>>
    ELSE AnnotCommand(script[i], env, i) \o AnnotScriptFrom(script, env, i + 1)
AnnotScript(script) == AnnotScriptFrom(script, EnvOf(script), 1)

(* A script is well-sorted (as far as this module knows the theories) iff  *)
(* no term position is Ill, assertions are Bool and definition bodies have *)
(* the declared sort.                                                      *)
WellSorted(script) ==
    LET env == EnvOf(script)
        an == AnnotScriptFrom(script, env, 1)
    IN /\ \A i \in 1..Len(an) : an[i][2] # Ill
       /\ \A i \in 1..Len(script) :
            /\ HeadSym(script[i]) = "assert" /\ Len(script[i].k) = 2 =>
                 SortOf(script[i].k[2], env, EmptyFn) = SBool

=============================================================================
