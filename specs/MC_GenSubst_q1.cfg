\* C11 quick 1: identity keys only: forests <= 5 positions over {a,b}, <= 2 identity keys (delete / leaf / tree / existing subtree)
INIT GInit
NEXT GNext
CONSTANTS
  Labels <- LabelsAB
  MaxNodes = 5
  MaxDepth = 3
  MaxTop = 2
  ShareOn = FALSE
  MaxIdKeys = 2
  MaxStKeys = 0
  Decls <- DeclsNone
INVARIANT EmptyIsIdentity
INVARIANT ResultTokensAccounted
INVARIANT UntouchedKept
INVARIANT ConsumingAgreesOnTrees
INVARIANT GroupIsSequential
