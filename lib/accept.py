"""The documented acceptance rule (docs/quickstart.rst, property C09), as a
plain function.  Checker.tla states the same rule; check C09 compares the two
on the full configuration space in every run."""


def accept_one(golden, run, ignore_out, ignore_err, match_out, match_err):
    """golden/run: (exit, out, err).  None streams = timed out."""
    if run[0] != golden[0]:
        return False
    for g, r, ign, mat in ((golden[1], run[1], ignore_out, match_out),
                           (golden[2], run[2], ignore_err, match_err)):
        if ign:
            continue
        if mat:
            if r is None or mat not in r:
                return False
        elif g != r:
            return False
    return True


def accept_all(cfg, golden, run, golden_cc=None, run_cc=None):
    """cfg: dict of option values (argparse dest names)."""
    if cfg.get('unchecked'):
        return True
    io = cfg.get('ignore_output')
    if not accept_one(golden, run, io or cfg.get('ignore_out'),
                      io or cfg.get('ignore_err'), cfg.get('match_out'),
                      cfg.get('match_err')):
        return False
    if cfg.get('cmd_cc'):
        ic = cfg.get('ignore_output_cc')
        if not accept_one(golden_cc, run_cc, ic, ic, cfg.get('match_out_cc'),
                          cfg.get('match_err_cc')):
            return False
    return True
