"""Conversions between TLA+ node records (SExpr.tla), ddsmt Nodes and plain
nested structures."""


def build_nodes(Node, frecs, expand=lambda d: d, cache=None):
    """TLA+ forest (tuple of node records) -> list of ddsmt Nodes carrying the
    model's identities; records with equal id become ONE object (sharing)."""
    if cache is None:
        cache = {}

    def b(r):
        i = r['id']
        if i >= 1000:
            # "the same object as base node i-1000" (see GenSubst.tla, Bump)
            return cache[i - 1000]
        if i and i in cache:
            return cache[i]
        if r['t'] == 'L':
            n = Node(expand(r['d']), _id=i or None)
        else:
            kids = [b(c) for c in r['k']]
            n = Node(*kids, _id=i or None)
            if not kids:
                # Node() of no arguments: make sure data is the empty tuple
                assert n.data == ()
        if i:
            cache[i] = n
        return n

    return [b(r) for r in frecs]


def nested_of_recs(frecs, expand=lambda d: d):
    out = []
    for r in frecs:
        if r['t'] == 'L':
            out.append(expand(r['d']))
        else:
            out.append(nested_of_recs(r['k'], expand))
    return out


def nested_of_nodes(exprs):
    """ddsmt Nodes -> nested lists of str (recursive; small trees only)."""
    out = []
    for n in exprs:
        if n.is_leaf():
            out.append(n.data)
        else:
            out.append(nested_of_nodes(n.data))
    return out


def ids_nested(exprs):
    """ddsmt Nodes -> nested (id, data|children) for identity comparison."""
    out = []
    for n in exprs:
        if n.is_leaf():
            out.append((n.id, n.data))
        else:
            out.append((n.id, ids_nested(n.data)))
    return out


def dfs_nodes(exprs):
    """Independent pre-order walk over ddsmt Nodes (all positions)."""
    out = []
    stack = list(reversed(list(exprs)))
    while stack:
        n = stack.pop()
        out.append(n)
        if not n.is_leaf():
            stack.extend(reversed(n.data))
    return out


def to_tuple(n):
    """ddsmt Node -> nested tuples / str (what Node.__eq__ also accepts)."""
    if n.is_leaf():
        return n.data
    return tuple(to_tuple(c) for c in n.data)


def tokens_of_nested(forest):
    out = []
    for x in forest:
        if isinstance(x, str):
            out.append(x)
        else:
            out.append('(')
            out.extend(tokens_of_nested(x))
            out.append(')')
    return out


def reserve_ids(Node, upto=1000):
    """Advance ddsmt's id counter beyond the identities the models use, so
    that nodes ddsmt creates itself never collide with model identities
    given through `_id=` (which does not advance the counter)."""
    while Node('x').id < upto:
        pass
