"""Independent reference reader for SMT-LIB 2.6 text (section 3.1 of the
standard).  Not derived from ddsmt.nodeio.  Validated against Lexer.tla's
state dump by check C08 in every run.

read(text) -> (tokens, forest)
  tokens: list of str; '(' and ')' for parentheses; a comment is one token
          without its terminating line break.
  forest: nested lists of str (leaf = str, list = python list); comments are
          leaves where they occur.
Raises ReadError on unbalanced parentheses / unterminated literals.
"""

WS = ' \t\n\r'
LINEBREAK = '\n\r'


class ReadError(Exception):
    pass


def lex(text):
    toks = []
    i = 0
    n = len(text)
    while i < n:
        c = text[i]
        if c in WS:
            i += 1
        elif c == '(' or c == ')':
            toks.append(c)
            i += 1
        elif c == ';':
            j = i
            while j < n and text[j] not in LINEBREAK:
                j += 1
            toks.append(text[i:j])
            i = j + 1 if j < n else j
        elif c == '"':
            j = i + 1
            while True:
                if j >= n:
                    raise ReadError('unterminated string literal')
                if text[j] == '"':
                    if j + 1 < n and text[j + 1] == '"':
                        j += 2
                        continue
                    break
                j += 1
            toks.append(text[i:j + 1])
            i = j + 1
        elif c == '|':
            j = text.find('|', i + 1)
            if j < 0:
                raise ReadError('unterminated quoted symbol')
            toks.append(text[i:j + 1])
            i = j + 1
        else:
            j = i
            while j < n and text[j] not in WS and text[j] not in '();"|':
                j += 1
            toks.append(text[i:j])
            i = j
    return toks


def is_comment(tok):
    return tok.startswith(';')


def build(toks):
    stack = [[]]
    for t in toks:
        if t == '(':
            stack.append([])
        elif t == ')':
            if len(stack) == 1:
                raise ReadError('unbalanced )')
            done = stack.pop()
            stack[-1].append(done)
        else:
            stack[-1].append(t)
    if len(stack) != 1:
        raise ReadError('unbalanced (')
    return stack[0]


def read(text):
    toks = lex(text)
    return toks, build(toks)


def flatten(forest):
    """forest (nested lists of str) -> token list."""
    out = []
    stack = [iter(forest)]
    while stack:
        try:
            x = next(stack[-1])
        except StopIteration:
            stack.pop()
            if stack:
                out.append(')')
            continue
        if isinstance(x, str):
            out.append(x)
        else:
            out.append('(')
            stack.append(iter(x))
    return out


def node_to_nested(node, strip_comment_eol=True):
    """ddsmt Node -> nested lists of str (iterative)."""
    if node.is_leaf():
        d = node.data
        if strip_comment_eol and d.startswith(';'):
            d = d.rstrip('\r\n')
        return d
    root = []
    stack = [(node, root)]
    while stack:
        n, out = stack.pop()
        for ch in n.data:
            if ch.is_leaf():
                d = ch.data
                if strip_comment_eol and d.startswith(';'):
                    d = d.rstrip('\r\n')
                out.append(d)
            else:
                sub = []
                out.append(sub)
                stack.append((ch, sub))
    return root


def forest_to_nested(exprs, strip_comment_eol=True):
    return [node_to_nested(e, strip_comment_eol) for e in exprs]
