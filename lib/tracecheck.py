"""Validate converted traces with TLC (one TLC process per trace, run in
parallel).  Returns, per trace, ('accept', n) or ('reject', position, event,
clause) or ('invariant', name)."""
import json
import os
import re
import shutil
import subprocess
import time
from concurrent.futures import ThreadPoolExecutor

import common

_REJ = re.compile(r'<<\s*"REJECT",\s*(\d+),\s*"([\w-]+)",\s*"([^"]+)"\s*>>')
_ACC = re.compile(r'<<\s*"ACCEPT",\s*(\d+)\s*>>')


def _one(args):
    module, cfg, rec, workdir, idx = args
    path = os.path.join(workdir, f'trace{idx}.json')
    with open(path, 'w') as f:
        json.dump(rec, f)
    meta = os.path.join(workdir, f'meta{idx}')
    env = dict(os.environ)
    env['TRACE'] = path
    # TLC creates a directory in java.io.tmpdir on every start and leaves it
    env['JAVA_TOOL_OPTIONS'] = (env.get('JAVA_TOOL_OPTIONS', '') +
                                ' -Djava.io.tmpdir=' + workdir).strip()
    cmd = ['tlc', '-workers', '1', '-metadir', meta, '-noGenerateSpecTE',
           '-deadlock', '-config', cfg, module]
    t0 = time.time()
    try:
        p = subprocess.run(cmd, cwd=workdir, env=env, stdout=subprocess.PIPE,
                           stderr=subprocess.STDOUT, timeout=600)
    except subprocess.TimeoutExpired:
        return ('machinery', 'TLC timeout')
    out = p.stdout.decode('utf-8', 'replace')
    shutil.rmtree(meta, ignore_errors=True)
    os.remove(path)
    m = re.search(r'(\d+) states generated, (\d+) distinct states', out)
    states = (int(m.group(1)), int(m.group(2))) if m else (0, 0)
    mi = re.search(r'Error: Invariant (\w+) is violated', out)
    if mi:
        return ('invariant', mi.group(1), states, time.time() - t0)
    a = _ACC.search(out)
    if a:
        # some branch of the (nondeterministic) trace spec consumed the trace
        return ('accept', int(a.group(1)), states, time.time() - t0)
    rs = [(int(m.group(1)), m.group(2), m.group(3))
          for m in _REJ.finditer(out)]
    if rs:
        r = max(rs)   # the longest matched prefix
        return ('reject', r[0], r[1], r[2], states, time.time() - t0)
    if 'Model checking completed' in out and 'Error:' not in out:
        # TLC explored every branch of the trace spec and none consumed the
        # trace nor reached a REJECT line: no action of the specification
        # explains the next event (total verdict: a rejection)
        return ('reject', states[1], 'unexplained-event',
                'no-action-of-the-specification-enabled', states,
                time.time() - t0)
    i = out.find('Error:')
    return ('machinery', out[i:i + 2000] if i >= 0 else out[-2500:])


def validate(module, cfg, recs, jobs=None):
    """recs: list of trace records.  Returns list of verdict tuples."""
    if not recs:
        return []
    workdir = common.subscratch('tracecheck-' + str(time.time_ns()))
    for f in os.listdir(common.SPECS):
        if f.endswith(('.tla', '.cfg')):
            shutil.copy(os.path.join(common.SPECS, f), workdir)
    jobs = jobs or max(2, common.NCPU // 2)
    with ThreadPoolExecutor(jobs) as ex:
        res = list(ex.map(_one, [(module, cfg, r, workdir, i)
                                 for i, r in enumerate(recs)]))
    shutil.rmtree(workdir, ignore_errors=True)
    for r in res:
        if r[0] == 'machinery':
            raise common.MachineryError('trace validation failed to run: ' +
                                        str(r[1]))
    return res
