"""Running ddSMT end to end (through the launcher or through its real entry
points) against the scripted command, and collecting what was observed."""
import hashlib
import json
import os
import signal
import subprocess
import sys
import time

import common
import refreader

LAUNCHER = os.path.join(common.VERIF, 'lib', 'launcher.py')
PRED = os.path.join(common.VERIF, 'cmds', 'pred.py')

ACCEPT = {'exit': 1, 'out': 'bug triggered\n', 'err': 'assertion failure\n'}
REJECT = {'exit': 0, 'out': 'sat\n', 'err': ''}


class Run:
    pass


def sha(b):
    return hashlib.sha1(b).hexdigest()[:16]


def read_ndjson(path):
    out = []
    if not os.path.exists(path):
        return out
    with open(path) as f:
        for line in f:
            line = line.strip()
            if line:
                try:
                    out.append(json.loads(line))
                except ValueError:
                    out.append({'ev': '<corrupt>', 'line': line})
    return out


def run_ddsmt(workdir, input_text, spec, opts=(), entry='launcher',
              timeout=180, ext='.smt2', env_extra=None, cmd_extra=(),
              cc_spec=None, pre_outfile=None, popen_hook=None, prefix=None, mangle=None,
              tmpdir=None, same_basename=False):
    """One ddSMT session in `workdir` (created; caller removes it)."""
    os.makedirs(workdir, exist_ok=True)
    tmp = tmpdir or os.path.join(workdir, 'tmp')
    os.makedirs(tmp, exist_ok=True)
    infile = os.path.join(workdir, 'input' + ext)
    outfile = os.path.join(workdir, 'output' + ext)
    with open(infile, 'w', newline='') as f:
        f.write(input_text)
    if pre_outfile is not None:
        with open(outfile, 'w') as f:
            f.write(pre_outfile)
    spec = dict(spec)
    spec.setdefault('accept', ACCEPT)
    spec.setdefault('reject', REJECT)
    spec['log'] = os.path.join(workdir, 'cmd.log')
    specfile = os.path.join(workdir, 'spec.json')
    with open(specfile, 'w') as f:
        json.dump(spec, f)
    opts = list(opts)
    if cc_spec is not None:
        cc = dict(cc_spec)
        cc.setdefault('accept', ACCEPT)
        cc.setdefault('reject', REJECT)
        cc['log'] = os.path.join(workdir, 'cmd_cc.log')
        ccfile = os.path.join(workdir, 'spec_cc.json')
        with open(ccfile, 'w') as f:
            json.dump(cc, f)
        opts += ['-c', f'{PRED} {ccfile}']
    evlog = os.path.join(workdir, 'events.ndjson')
    ddargs = opts + [infile, outfile, PRED, specfile] + list(cmd_extra)
    if same_basename and cc_spec is not None:
        # the command and the cross-check command are two different
        # executables with the same base name in different directories
        for sub, sf in (('m', specfile), ('c', ccfile)):
            os.makedirs(os.path.join(workdir, sub), exist_ok=True)
            w = os.path.join(workdir, sub, 'run')
            with open(w, 'w') as f:
                f.write(f'#!/bin/sh\nexec {common.PY} {PRED} {sf} "$@"\n')
            os.chmod(w, 0o755)
        opts[opts.index('-c') + 1] = os.path.join(workdir, 'c', 'run')
        ddargs = opts + [infile, outfile, os.path.join(workdir, 'm', 'run')] \
            + list(cmd_extra)
    if mangle == 'input-missing':
        os.remove(infile)
    elif mangle == 'input-is-directory':
        os.remove(infile)
        os.makedirs(infile)
    elif mangle == 'command-missing':
        ddargs = opts + [infile, outfile]
    elif mangle == 'command-not-a-file':
        ddargs = opts + [infile, outfile,
                         os.path.join(workdir, 'no-such-command'), specfile]
    elif mangle == 'command-not-executable':
        ne = os.path.join(workdir, 'not-executable')
        with open(ne, 'w') as f:
            f.write('#!/bin/sh\nexit 0\n')
        os.chmod(ne, 0o644)
        ddargs = opts + [infile, outfile, ne, specfile]
    elif mangle in ('command-exec-format', 'cross-check-exec-format'):
        # an executable file the system cannot run (no interpreter line,
        # not a binary)
        nf = os.path.join(workdir, 'no-format')
        with open(nf, 'wb') as f:
            f.write(b'\x00\x01 not a program\n')
        os.chmod(nf, 0o755)
        if mangle == 'command-exec-format':
            ddargs = opts + [infile, outfile, nf, specfile]
        else:
            ddargs = ['-c', nf] + opts + [infile, outfile, PRED, specfile]
    elif mangle == 'cross-check-missing':
        ddargs = ['-c', os.path.join(workdir, 'no-such-command')] + opts + \
            [infile, outfile, PRED, specfile]
    elif mangle == 'cross-check-not-executable':
        ne = os.path.join(workdir, 'not-executable-cc')
        with open(ne, 'w') as f:
            f.write('#!/bin/sh\nexit 0\n')
        os.chmod(ne, 0o644)
        ddargs = ['-c', ne] + opts + [infile, outfile, PRED, specfile]
    if entry == 'launcher':
        argv = [common.PY, LAUNCHER, '--log', evlog, '--'] + ddargs
    elif entry == 'module':
        argv = [common.PY, '-m', 'ddsmt'] + ddargs
    elif entry == 'bin':
        argv = [common.PY, os.path.join(common.REPO, 'bin', 'ddsmt')] + ddargs
    else:
        raise ValueError(entry)
    if prefix:
        argv = list(prefix) + argv
    env = dict(os.environ)
    env['TMPDIR'] = tmp
    env['DDSMT_REPO'] = common.REPO
    env['PYTHONPATH'] = common.REPO
    env['PYTHONDONTWRITEBYTECODE'] = '1'
    env.setdefault('PYTHONHASHSEED', '0')
    if env_extra:
        env.update(env_extra)
    r = Run()
    r.workdir, r.infile, r.outfile, r.argv = workdir, infile, outfile, argv
    r.in_sha_before = sha(open(infile, 'rb').read()) if os.path.isfile(
        infile) else None
    t0 = time.time()
    p = subprocess.Popen(argv, cwd=workdir, env=env, stdout=subprocess.PIPE,
                         stderr=subprocess.PIPE,
                         preexec_fn=lambda: signal.signal(signal.SIGINT,
                                                          signal.SIG_DFL),
                         start_new_session=True)
    r.timed_out = False
    if popen_hook:
        popen_hook(p, r)
    try:
        out, err = p.communicate(timeout=timeout)
    except subprocess.TimeoutExpired:
        r.timed_out = True
        try:
            os.killpg(p.pid, signal.SIGKILL)
        except OSError:
            pass
        out, err = p.communicate()
    r.wall = time.time() - t0
    r.status = p.returncode
    r.stdout = out.decode('utf-8', 'replace')
    r.stderr = err.decode('utf-8', 'replace')
    r.events = read_ndjson(evlog)
    r.cmdlog = read_ndjson(spec['log'])
    r.cmdlog_cc = read_ndjson(os.path.join(workdir, 'cmd_cc.log'))
    r.in_sha_after = sha(open(infile, 'rb').read()) if os.path.isfile(
        infile) else None
    r.out_text = None
    if os.path.exists(outfile):
        with open(outfile, newline='') as f:
            r.out_text = f.read()
    r.tmp_left = sorted(os.listdir(tmp))
    r.spec = spec
    r.specfile = specfile
    return r


_calib = None


def calibrate():
    """Wall time of one small complete ddSMT run on this machine right now
    (measured once per check).  "Did not finish" is judged against a generous
    multiple of it, so that a loaded machine never looks like a hang."""
    global _calib
    if _calib is None:
        import corpus
        wd = common.subscratch('calibrate')
        t0 = time.time()
        run_ddsmt(wd, corpus.FLAT, {'mode': 'contains',
                                    'markers': ['check-sat', '3']},
                  ['--strategy', 'hybrid', '-j', '2'], entry='module',
                  timeout=1800)
        _calib = time.time() - t0
    return _calib


def time_limit(base):
    """`base` seconds on an idle machine, scaled up under load."""
    return int(base + 25 * calibrate())


def rerun_command(r, path, cc=False):
    """Run the scripted command (or the cross-check command) once on `path`;
    returns (exit, stdout, stderr)."""
    sf = os.path.join(r.workdir, 'spec_cc.json') if cc else r.specfile
    p = subprocess.run([common.PY, PRED, sf, path], stdout=subprocess.PIPE,
                       stderr=subprocess.PIPE)
    return p.returncode, p.stdout.decode(), p.stderr.decode()


def out_tokens(r):
    if r.out_text is None:
        return None
    try:
        return refreader.lex(r.out_text)
    except refreader.ReadError:
        return ['<unreadable>', r.out_text]
