"""Small SMT-LIB inputs and scripted-command predicates for end-to-end runs.
Everything is a function of an explicit random.Random (seeded from VERIF_SEED)."""
import random

import refreader


def _int_term(r, vars_, depth):
    if depth <= 0 or r.random() < 0.3:
        return r.choice(vars_ + [str(r.randint(0, 9))])
    op = r.choice(['+', '-', '*', 'ite'])
    if op == 'ite':
        return f'(ite {_bool_term(r, vars_, [], depth - 1)} ' \
               f'{_int_term(r, vars_, depth - 1)} {_int_term(r, vars_, depth - 1)})'
    return f'({op} {_int_term(r, vars_, depth - 1)} {_int_term(r, vars_, depth - 1)})'


def _bool_term(r, ivars, bvars, depth):
    if depth <= 0 or r.random() < 0.2:
        if bvars and r.random() < 0.5:
            return r.choice(bvars)
        return f'({r.choice(["<", ">", "=", "<=", "distinct"])} ' \
               f'{_int_term(r, ivars, 1)} {_int_term(r, ivars, 1)})'
    op = r.choice(['and', 'or', 'not', '=>', 'xor', 'let'])
    if op == 'not':
        return f'(not {_bool_term(r, ivars, bvars, depth - 1)})'
    if op == 'let':
        v = 'l' + str(r.randint(0, 3))
        return f'(let (({v} {_int_term(r, ivars, 1)})) ' \
               f'{_bool_term(r, ivars + [v], bvars, depth - 1)})'
    return f'({op} {_bool_term(r, ivars, bvars, depth - 1)} ' \
           f'{_bool_term(r, ivars, bvars, depth - 1)})'


def gen_script(r, nassert=None, flavour=None):
    """A small well-formed script; returns text."""
    flavour = flavour or r.choice(['lia', 'lia', 'bool', 'bv', 'fun', 'odd'])
    nassert = nassert if nassert is not None else r.randint(2, 9)
    lines = []
    if r.random() < 0.8:
        lines.append('(set-logic ALL)')
    if r.random() < 0.3:
        lines.append('(set-info :source |a quoted; symbol (with parens|)')
    if r.random() < 0.3:
        lines.append('; a comment line (with a paren')
    ni = r.randint(1, 4)
    ivars = [f'x{i}' for i in range(ni)]
    bvars = [f'p{i}' for i in range(r.randint(0, 2))]
    for v in ivars:
        lines.append(r.choice([f'(declare-const {v} Int)',
                               f'(declare-fun {v} () Int)']))
    for v in bvars:
        lines.append(f'(declare-const {v} Bool)')
    if flavour == 'bv':
        lines.append('(declare-const b0 (_ BitVec 8))')
        lines.append('(declare-const b1 (_ BitVec 8))')
    if flavour == 'fun':
        lines.append('(define-fun f ((a Int) (b Int)) Int (+ a (* 2 b)))')
    for k in range(nassert):
        if flavour == 'bv' and r.random() < 0.6:
            t = r.choice([
                '(= (bvadd b0 #x01) b1)', '(bvult b0 (bvnot b1))',
                '(= ((_ extract 3 0) b0) #b1010)',
                '(= (concat b0 b1) (concat b1 b0))',
                '(distinct (bvand b0 b1) (_ bv3 8))'
            ])
        elif flavour == 'fun' and r.random() < 0.6:
            t = f'(> (f {_int_term(r, ivars, 1)} {_int_term(r, ivars, 1)}) {k})'
        elif flavour == 'odd' and r.random() < 0.4:
            t = r.choice(['"a string ; with (stuff"', '|odd sym|', 'true',
                          '(! (> x0 0) :named n1)', '()'])
        else:
            t = _bool_term(r, ivars, bvars, r.randint(0, 2))
        lines.append(f'(assert {t})')
        if flavour == 'odd' and r.random() < 0.15:
            lines.append('(push 1)')
    lines.append('(check-sat)')
    if r.random() < 0.3:
        lines.append('(get-model)')
    if r.random() < 0.2:
        lines.append('(exit)')
    sep = r.choice(['\n', '\n', ' ', '\r\n'])
    if sep == ' ':
        lines = [x for x in lines if not x.startswith(';')]
    return sep.join(lines) + '\n'


def atoms_of(text):
    return [t for t in refreader.lex(text)
            if t not in '()' and not t.startswith(';')]


def gen_pred(r, text, family=None):
    """A scripted-command specification whose behaviour depends on the token
    sequence only and which the original input satisfies."""
    toks = refreader.lex(text)
    atoms = sorted(set(atoms_of(text)))
    family = family or r.choice(['contains', 'contains', 'subseq', 'hash',
                                 'parity', 'balanced', 'count'])
    k = r.randint(1, min(3, len(atoms)))
    markers = r.sample(atoms, k)
    if family == 'contains':
        return {'mode': 'contains', 'markers': markers}
    if family == 'subseq':
        order = [t for t in toks if t in markers]
        seen = []
        for t in order:
            if t not in seen:
                seen.append(t)
        return {'mode': 'subseq', 'markers': seen}
    if family == 'count':
        m = r.choice(atoms)
        return {'mode': 'count', 'counts': {m: max(1, toks.count(m) - r.randint(0, 1))}}
    if family == 'hash':
        return {'mode': 'hash', 'orig': toks, 'markers': markers[:1],
                'seed': r.randint(0, 10**6), 'mod': 4,
                'thr': r.choice([1, 2, 3])}
    if family == 'parity':
        kk = r.choice([2, 3])
        return {'mode': 'parity', 'markers': markers[:1], 'k': kk,
                'r': len(toks) % kk}
    if family == 'balanced':
        return {'mode': 'balanced', 'markers': markers}
    raise ValueError(family)


FLAT = ('(set-logic QF_LIA)\n' +
        ''.join(f'(declare-const x{i} Int)\n' for i in range(5)) +
        ''.join(f'(assert (> x{i % 5} {i}))\n' for i in range(10)) +
        '(check-sat)\n')


def configs(r, n, strategies=('ddmin', 'hierarchical', 'hybrid'),
            jobs=(1, 2, 4), outmodes=((), ('--pretty-print', ),
                                      ('--wrap-lines', ))):
    """n run configurations: (text, spec, options, meta)."""
    out = []
    for i in range(n):
        if i % 5 == 0:
            text = FLAT
            keep = r.sample(range(10), r.randint(1, 3))
            spec = {'mode': 'contains',
                    'markers': ['check-sat'] + [str(k) for k in keep]}
        else:
            text = gen_script(r)
            spec = gen_pred(r, text)
        st = strategies[i % len(strategies)]
        j = jobs[(i // len(strategies)) % len(jobs)]
        om = outmodes[(i // (len(strategies) * len(jobs))) % len(outmodes)]
        spec['delay_ms'] = r.choice([0, 3, 8])
        spec['delay_seed'] = r.randint(0, 10**6)
        opts = ['--strategy', st, '-j', str(j)] + list(om)
        out.append((text, spec, opts, {'strategy': st, 'jobs': j,
                                       'outmode': list(om), 'n': i}))
    return out
