"""Shared engine of the strategy-level checks (C01 C02 C03 C05 C13 C18):
run ddSMT end to end on a set of configurations, convert the recorded events
and have TLC validate every run against TraceHier.tla / TraceDdmin.tla."""
import os
import shutil
from concurrent.futures import ThreadPoolExecutor

import common
import runs
import traceconv
import tracecheck


class Item:
    pass


def execute(cfgs, parallel=None, timeout=240, env_extra=None, label='run'):
    """cfgs: list of (text, spec, opts, meta).  Returns list of Item."""
    parallel = parallel or max(2, common.NCPU // 3)
    base = common.subscratch(label)

    def one(k):
        text, spec, opts, meta = cfgs[k]
        wd = os.path.join(base, f'{label}{k}')
        ee = dict(env_extra or {})
        ee.update(meta.get('env', {}))
        sch = None
        if meta.get('sched'):
            # completion order of the checks dictated by a schedule
            import sched
            os.makedirs(wd, exist_ok=True)
            sc = meta['sched']
            spec = dict(spec, sched_sock=os.path.join(wd, 's.sock'))
            sch = sched.Scheduler(spec['sched_sock'], sc['jobs'],
                                  sc['choices'], sc.get('tail', 'fifo'))
        if meta.get('plan'):
            # completion order AND verdicts dictated by a behaviour that TLC
            # generated from HierSched.tla (lib/hreplay.py)
            import hreplay
            os.makedirs(wd, exist_ok=True)
            pl = meta['plan']
            if 'system' not in pl:
                # from a replay file: the system is extracted again
                nm = pl['system_name']
                pl['system'] = hreplay.extract(*hreplay.SYSTEMS[nm], nm)
            spec = dict(spec, sched_sock=os.path.join(wd, 's.sock'))
            gate = os.path.join(wd, 'gate')
            ee['VERIF_MAIN_GATE'] = gate
            sch = hreplay.PlanScheduler(
                spec['sched_sock'], pl['jobs'], pl['system'], pl['beh'],
                os.path.join(wd, 'events.ndjson'),
                patience=10 + 10 * runs.calibrate(), gate=gate,
                settle=0.3 + 0.1 * runs.calibrate())
        try:
            r = runs.run_ddsmt(wd, text, spec, opts, timeout=timeout,
                               env_extra=ee, ext=meta.get('ext', '.smt2'),
                               cc_spec=meta.get('cc_spec'),
                               same_basename=meta.get('same_basename',
                                                      False))
        finally:
            if sch:
                sch.stop()
                meta['decisions'] = list(sch.decisions)
                if meta.get('plan'):
                    meta['diverged'] = sch.diverged
                    meta['controlled'] = sch.controlled
                    meta['late_releases'] = sch.late_releases
        if r.cmdlog and not r.cmdlog[0].get('verdict') and \
                not spec.get('mode') == 'never':
            # a configuration of the harness, not a finding: every candidate
            # "matches" a golden run that does not show the failure
            raise common.MachineryError(
                f'{label}{k}: the original input does not satisfy the '
                f'predicate of its command: {spec}')
        it = Item()
        it.run, it.text, it.spec, it.opts, it.meta = r, text, spec, opts, meta
        it.conv = traceconv.Conv(r)
        it.hier = it.conv.hier()
        it.ddmin = it.conv.ddmin()
        # last: the numbering of the inputs is complete then
        it.session = it.conv.session()
        it.outer = it.conv.ddmin_outer()
        return it

    with ThreadPoolExecutor(parallel) as ex:
        items = list(ex.map(one, range(len(cfgs))))
    return items


def validate(rep, items):
    """TLC validation of every converted trace; sets it.hier_v / it.ddmin_v."""
    hs = [it for it in items if it.hier is not None]
    ds = [it for it in items if it.ddmin is not None]
    hv = tracecheck.validate('TraceHier', 'TraceHier.cfg',
                             [it.hier for it in hs])
    dv = tracecheck.validate('TraceDdmin', 'TraceDdmin.cfg',
                             [it.ddmin for it in ds])
    ss = [it for it in items if getattr(it, 'session', None) is not None]
    sv = tracecheck.validate('TraceSession', 'TraceSession.cfg',
                             [it.session for it in ss])
    os_ = [it for it in items if getattr(it, 'outer', None) is not None]
    ov = tracecheck.validate('TraceDdminOuter', 'TraceDdminOuter.cfg',
                             [it.outer for it in os_])
    for it in items:
        it.hier_v = it.ddmin_v = it.session_v = it.outer_v = None
    for it, v in zip(os_, ov):
        it.outer_v = v
    for it, v in zip(ss, sv):
        it.session_v = v
    st = tr = 0
    for it, v in zip(hs, hv):
        it.hier_v = v
        st += v[-2][1]
        tr += v[-2][0]
    for it, v in zip(ds, dv):
        it.ddmin_v = v
        st += v[-2][1]
        tr += v[-2][0]
    rep.cov['states'] += st
    rep.cov['transitions'] += tr
    rep.cov['traces_validated_against_impl'] += len(hs) + len(ds)
    return items


def cleanup(items):
    for it in items:
        shutil.rmtree(it.run.workdir, ignore_errors=True)


def describe(it):
    return {'input': it.text, 'command': {k: v for k, v in it.spec.items()
                                          if k not in ('log', 'accept',
                                                       'reject')},
            'options': it.opts}


def replay_obj(it):
    meta = {k: v for k, v in it.meta.items()}
    if 'plan' in meta:
        # a replay file carries the behaviour, not the whole system
        meta['plan'] = {'jobs': meta['plan']['jobs'],
                        'beh': meta['plan']['beh'],
                        'system_name': meta['plan']['system']['name']}
    return {'input': it.text, 'spec': it.spec, 'opts': it.opts,
            'meta': meta}


def trace_violations(rep, it, clauses=None, prefix=''):
    """Report rejected traces of one item as violations.  `clauses`: if given,
    only rejections whose clause is in this set are this property's."""
    n = 0
    for strat, v, rec in (('hier', it.hier_v, it.hier),
                          ('ddmin', it.ddmin_v, it.ddmin),
                          ('session', getattr(it, 'session_v', None),
                           getattr(it, 'session', None)),
                          ('ddmin-outer', getattr(it, 'outer_v', None),
                           getattr(it, 'outer', None))):
        if v is None or v[0] == 'accept':
            continue
        if v[0] == 'reject':
            pos, evname, clause = v[1], v[2], v[3]
            if clauses is not None and clause not in clauses:
                continue
            ev = rec['events'][pos - 1] if pos - 1 < len(rec['events']) else {}
            rep.violation(
                f'{prefix}trace-{strat}:{clause}:{common.digest(describe(it))}',
                f'{strat} trace rejected by TLC at event {pos} ({evname}): '
                f'{clause}; event {ev}; options {it.opts}', replay_obj(it))
            n += 1
        elif v[0] == 'invariant':
            if clauses is not None and v[1] not in clauses:
                continue
            rep.violation(
                f'{prefix}trace-{strat}:invariant-{v[1]}:'
                f'{common.digest(describe(it))}',
                f'{strat} trace violates invariant {v[1]}; options {it.opts}',
                replay_obj(it))
            n += 1
    return n


def model_check(rep, jobs, expect_ok=True):
    """jobs: list of (module, cfg, timeout).  Runs TLC on the strategy models
    and reports property violations of the MODEL as machinery errors (the
    model is the specification; it must satisfy its own properties)."""
    for job in jobs:
        module, cfg, tmo = job[:3]
        allow_zero = set(job[3]) if len(job) > 3 else set()
        res = common.run_tlc(module, cfg, timeout=tmo, name=cfg)
        if res.violated:
            raise common.MachineryError(
                f'{module}/{cfg}: the specification violates {res.violated}\n'
                + common.tlc_counterexample(res.output))
        rep.add_tlc(res, cfg)
        # vacuity: every action of the model must have been taken
        zero = [a for a, (d, t) in res.coverage.items()
                if t == 0 and a not in allow_zero]
        if zero:
            raise common.MachineryError(
                f'{module}/{cfg}: actions never taken: {zero}')


def model_refutes(rep, module, cfg, expected, timeout=900):
    """The faulty variant `cfg` of the model must violate one of the
    properties `expected` (otherwise the property is vacuous: machinery
    failure)."""
    res = common.run_tlc(module, cfg, timeout=timeout, name=cfg,
                         coverage=False)
    if not (set(res.violated) & set(expected)):
        raise common.MachineryError(
            f'{module}/{cfg}: expected a violation of one of {expected}, '
            f'TLC reports {res.violated or "none"} (vacuous property?)')
    rep.add_tlc(res, cfg + ' (expected violation: ' +
                ','.join(sorted(set(res.violated) & set(expected))) + ')')


def adoption_chain(it, names=None):
    """[(tokens, mutator)] for every write of the run, in order; `names` maps
    a hierarchical task description to the mutator class name."""
    chain = []
    cur = None
    main = it.conv.main_events()
    for e in main:
        if e['ev'] == 'round':
            cur = e['mut']
        elif e['ev'] == 'recv' and e.get('strat') == 'hier' and e.get('ok'):
            n = e['name']
            if n.startswith('(global) '):
                n = n[len('(global) '):]
            cur = (names or {}).get(n, n)
        elif e['ev'] == 'write':
            chain.append((tuple(e['toks']), cur))
    return chain


def revisits(chain):
    """[(i, j, mutators of steps i+1..j)] for inputs adopted again after a
    different input was adopted in between."""
    out = []
    first = {}
    for j, (t, m) in enumerate(chain):
        if t in first:
            i = first[t]
            if any(chain[k][0] != t for k in range(i, j)):
                out.append((i, j, sorted({chain[k][1] or '?'
                                          for k in range(i + 1, j + 1)})))
                first[t] = j
        else:
            first[t] = j
    return out
