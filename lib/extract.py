"""Extraction of a finite reduction system from the real mutators.

usage (own process, /venv/bin/python): extract.py <input file> <out.json> [ddSMT options...]

Starting from the input, the closure of "candidate of some task of some pass"
is computed with the REAL pass construction (strategy_hierarchical.get_passes
under the given options) and the REAL Producer (generate(0, params) with a
flag that is never set): for every reachable input and every non-empty pass
the ordered task list [node, mutator, candidate].  Inputs are identified by
their token sequences (the proposals of the mutators used here do not depend
on node identities).  The table instantiates Hier.tla (constant TaskList), so
that TLC explores the strategy over exactly the reduction system the code has.
"""
import json
import os
import pickle
import sys

sys.path.insert(0, os.path.dirname(os.path.abspath(__file__)))
import common  # noqa: E402,F401
import ddsmt_env  # noqa: E402
import refreader  # noqa: E402


class NeverSet:

    def is_set(self):
        return False


def main():
    infile, outfile = sys.argv[1], sys.argv[2]
    opts = sys.argv[3:]
    maxn = int(os.environ.get('VERIF_EXTRACT_MAX', '80'))
    ddsmt_env.load(['-q', '-q'] + opts + [infile, 'out.smt2', 'cmd'])
    m = ddsmt_env.mods()
    nodes, nodeio, smtlib = m['nodes'], m['nodeio'], m['smtlib']
    sh, mu = m['strategy_hierarchical'], m['mutator_utils']
    with open(infile) as f:
        text = f.read()
    exprs = list(nodeio.parse_smtlib(text))
    m['mutators'].auto_detect_theories(exprs) if hasattr(
        m['mutators'], 'auto_detect_theories') else None
    passes = sh.get_passes()
    plist = []
    for pid in range(len(passes)):
        cur, params = sh.get_pass(passes, pid)
        if isinstance(cur, list):
            cur = [x for x in cur if x is not None]
        if not cur:
            continue
        if not isinstance(cur, list):
            cur = [cur]
        plist.append({'index': pid, 'params': params,
                      'muts': [type(x).__name__ for x in cur], 'objs': cur})

    def toks(e):
        return refreader.flatten(refreader.forest_to_nested(e))

    ids = {}
    inputs = []
    forest = []

    def intern(e):
        t = tuple(toks(e))
        if t not in ids:
            ids[t] = len(inputs) + 1
            inputs.append(list(t))
            forest.append(e)
        return ids[t]

    intern(exprs)
    table = {}
    k = 0
    overflow = False
    while k < len(inputs):
        e = nodes.reduplicate(forest[k])
        k += 1
        table[k] = {}
        for pn, p in enumerate(plist, 1):
            smtlib.collect_information(e)
            prod = sh.Producer(p['objs'], NeverSet(), e)
            tl = []
            for task in prod.generate(0, p['params']):
                simp = pickle.loads(task.simp)
                cand = mu.apply_simp(pickle.loads(task.exprs), simp)
                if len(inputs) >= maxn and tuple(toks(cand)) not in ids:
                    overflow = True
                    break
                name = task.name
                tl.append([task.nodeid, name, intern(cand)])
            table[k][pn] = tl
            if overflow:
                break
        if overflow:
            break
    out = {'overflow': overflow, 'inputs': inputs,
           'passes': [{k2: v for k2, v in p.items() if k2 != 'objs'}
                      for p in plist],
           'table': {str(i): {str(pn): tl for pn, tl in d.items()}
                     for i, d in table.items()}}
    with open(outfile, 'w') as f:
        json.dump(out, f)


if __name__ == '__main__':
    main()
