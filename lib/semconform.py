"""Code -> spec for C16/C17: hand recorded cases to TLC (specs/SemConform.tla).

S-expressions are shipped as {"s": text} / {"k": [...]}; TLC prints one line
<<"V", cid, verdict, detail>> per case.  Cases are split over several TLC
processes (one worker each: the walk over the case array is sequential).
"""
import concurrent.futures
import json
import os
import re

import common
import tlaval


def enc_node(n):
    """ddsmt Node -> {"s": ...} / {"k": [...]} (iterative).  Non-string leaf
    data (ddSMT builds sorts with int components) is rendered with str()."""
    if n.is_leaf():
        return {'s': str(n.data)}
    root = {'k': []}
    stack = [(n, root)]
    while stack:
        x, rec = stack.pop()
        for c in x.data:
            if c.is_leaf():
                rec['k'].append({'s': str(c.data)})
            else:
                r = {'k': []}
                rec['k'].append(r)
                stack.append((c, r))
    return root


def enc_forest(exprs):
    return [enc_node(e) for e in exprs]


def enc_nested(x):
    """nested lists of str -> s-expression records"""
    return {'s': x} if isinstance(x, str) else {'k': [enc_nested(y) for y in x]}


def dec(sx):
    """s-expression record (parsed TLC value or JSON) -> nested lists of str"""
    if 's' in sx:
        return sx['s']
    return [dec(y) for y in sx['k']]


def render(x):
    """nested lists of str -> SMT-LIB text"""
    if isinstance(x, str):
        return x
    return '(' + ' '.join(render(y) for y in x) + ')'


def paths_of(exprs):
    """{node id: 1-based path from the script root} for every node."""
    out = {}
    stack = [(e, (i + 1,)) for i, e in enumerate(exprs)]
    while stack:
        n, p = stack.pop()
        out[n.id] = p
        if not n.is_leaf():
            for j, c in enumerate(n.data):
                stack.append((c, p + (j + 1,)))
    return out


_V = re.compile(r'<<\s*"V",\s*(\d+),\s*"([\w-]+)",')


def _split_verdicts(output):
    """Yield (cid, verdict, detail text) from TLC output; values may span
    lines, so the text is cut at the next line that starts a verdict."""
    starts = [m for m in re.finditer(r'^<<\s*"V",', output, re.M)]
    for k, m in enumerate(starts):
        end = starts[k + 1].start() if k + 1 < len(starts) else len(output)
        chunk = output[m.start():end]
        # cut at the first line that does not belong to the value (TLC
        # progress / summary lines do not start with a blank or a bracket)
        lines = chunk.split('\n')
        keep = [lines[0]]
        for ln in lines[1:]:
            if ln[:1] in (' ', '\t') or ln.startswith(('<<', '>>', '[', ']')):
                keep.append(ln)
            else:
                break
        txt = '\n'.join(keep)
        mm = _V.match(txt)
        if not mm:
            continue
        cid, verdict = int(mm.group(1)), mm.group(2)
        try:
            val = tlaval.parse_value(txt)
            detail = val[3]
        except Exception:  # noqa: detail is informational only
            detail = txt[mm.end():].strip()[:400]
        yield cid, verdict, detail


def _run_chunk(args):
    label, path, n, timeout = args
    res = common.run_tlc('SemConform', 'SemConform.cfg', workers=1,
                         coverage=False, java_opts='-Xss1g',
                         env={'CASES': path}, timeout=timeout,
                         name='semconform-' + label)
    os.remove(path)
    if res.violated:
        raise common.MachineryError('SemConform.tla failed: ' +
                                    common.tlc_counterexample(res.output))
    if res.distinct != n + 1:
        raise common.MachineryError(
            f'SemConform.tla evaluated {res.distinct - 1} of {n} cases')
    return res, list(_split_verdicts(res.output))


def judge(rep, cases, label, timeout=3000, procs=None):
    """Run TLC over `cases` (dicts with 'cid', 'kind', ...).  Returns
    {cid: (verdict, detail)}."""
    if not cases:
        return {}
    procs = procs or min(common.NCPU, max(1, len(cases) // 40))
    d = common.subscratch('semconform')
    chunks = [cases[i::procs] for i in range(procs)]
    jobs = []
    for k, ch in enumerate(chunks):
        if not ch:
            continue
        path = os.path.join(d, f'{label}-{k}.json')
        with open(path, 'w') as f:
            json.dump(ch, f)
        jobs.append((f'{label}-{k}', path, len(ch), timeout))
    out = {}
    with concurrent.futures.ThreadPoolExecutor(max_workers=len(jobs)) as ex:
        for res, verdicts in ex.map(_run_chunk, jobs):
            rep.add_tlc(res, 'SemConform:' + label)
            for cid, verdict, detail in verdicts:
                out[cid] = (verdict, detail)
    missing = [c['cid'] for c in cases if c['cid'] not in out]
    if missing:
        raise common.MachineryError(
            f'SemConform.tla gave no verdict for cases {missing[:5]}')
    return out
