"""Code -> spec: hand recorded cases to TLC (specs/Conform.tla) for judgement."""
import json
import os
import re

import common

SPECIAL = {'(': 'LP', ')': 'RP', ' ': 'SP', '\t': 'TAB', '\n': 'LF',
           '\r': 'CR', '"': 'DQ', '|': 'BAR', ';': 'SEMI'}


def enc_text(s):
    """str -> list of characters / class names as LexerOps expects."""
    return [SPECIAL.get(c, c) for c in s]


def enc_node(n, strip_comment_eol=True, with_ids=True):
    """ddsmt Node -> JSON node record of SExpr.tla (iterative)."""
    def leaf(x):
        d = x.data
        if strip_comment_eol and d.startswith(';'):
            d = d.rstrip('\r\n')
        return {'id': x.id if with_ids else 0, 't': 'L', 'd': enc_text(d),
                'k': []}
    if n.is_leaf():
        return leaf(n)
    root = {'id': n.id if with_ids else 0, 't': 'N', 'd': [], 'k': []}
    stack = [(n, root)]
    while stack:
        x, rec = stack.pop()
        for c in x.data:
            if c.is_leaf():
                rec['k'].append(leaf(c))
            else:
                r = {'id': c.id if with_ids else 0, 't': 'N', 'd': [], 'k': []}
                rec['k'].append(r)
                stack.append((c, r))
    return root


def enc_forest(exprs, **kw):
    return [enc_node(e, **kw) for e in exprs]


def judge(rep, cases, label, timeout=1800):
    """Run TLC over `cases` (list of dicts with 'cid' and 'kind').
    Returns {cid: failing clause} for the cases TLC rejects."""
    if not cases:
        return {}
    d = common.subscratch('conform')
    path = os.path.join(d, f'{label}.json')
    with open(path, 'w') as f:
        json.dump(cases, f)
    res = common.run_tlc('Conform', 'Conform.cfg', workers=1, coverage=False,
                         java_opts='-Xss1g',
                         env={'CASES': path}, timeout=timeout,
                         name='conform-' + label)
    os.remove(path)
    if res.violated:
        raise common.MachineryError('Conform.tla failed: ' +
                                    common.tlc_counterexample(res.output))
    if res.distinct != len(cases) + 1:
        raise common.MachineryError(
            f'Conform.tla evaluated {res.distinct - 1} of {len(cases)} cases')
    rep.add_tlc(res, 'Conform:' + label)
    fails = {}
    for m in re.finditer(r'<<\s*"FAIL",\s*("[^"]*"|\d+),\s*"(\w[\w-]*)"\s*>>',
                         res.output):
        cid = m.group(1)
        cid = cid[1:-1] if cid.startswith('"') else int(cid)
        fails[cid] = m.group(2)
    return fails
