"""Launcher: runs ddSMT's own main() from the working tree under test with
event recording.  No source hooks: module-level functions and classes are
wrapped before main() runs; fork-based workers inherit the wrappers.

usage: launcher.py --log FILE [--entry module|bin] [--fault SPEC] -- <ddsmt argv>

Events are NDJSON lines appended with single O_APPEND writes:
  {"pid":..., "seq": per-process counter, "mseq": total order of the MAIN
   process (assigned under a lock; absent in workers), "ev": name, ...}
Token sequences are computed by the reference reader's conventions from the
in-memory nodes (comments without their line terminator).
"""
import json
import os
import pickle
import sys
import threading
import time

HERE = os.path.dirname(os.path.abspath(__file__))
sys.path.insert(0, HERE)

import refreader  # noqa: E402

REPO = os.environ.get('DDSMT_REPO', '/repo')

_fd = None
_lock = threading.Lock()
_seq = 0
_mseq = 0
_main_pid = None


def emit(ev, **kw):
    global _seq, _mseq
    with _lock:
        _seq += 1
        rec = {'pid': os.getpid(), 'seq': _seq, 'ev': ev}
        if os.getpid() == _main_pid:
            _mseq += 1
            rec['mseq'] = _mseq
            rec['thr'] = threading.current_thread().name
        rec.update(kw)
        os.write(_fd, (json.dumps(rec) + '\n').encode())


def toks(exprs):
    """Token list of a list of Nodes (or a single Node / None)."""
    if exprs is None:
        return None
    if not isinstance(exprs, (list, tuple)):
        exprs = [exprs]
    try:
        return refreader.flatten(refreader.forest_to_nested(exprs))
    except Exception as e:  # noqa
        return ['<unrenderable %s>' % type(e).__name__]


def all_ids(exprs):
    out = []
    stack = list(reversed(list(exprs)))
    while stack:
        n = stack.pop()
        out.append(n.id)
        if not n.is_leaf():
            stack.extend(reversed(n.data))
    return out


# Light mode (VERIF_LIGHT=1): the launcher creates no node in ddSMT's main
# process (it does not apply the proposed simplifications to log their
# candidates), so that the ids ddSMT draws are those of an unobserved run;
# instead the inputs of producers / generators and the argument and result of
# reduplicate are recorded with their identities (judged by Conform.tla).
LIGHT = bool(os.environ.get('VERIF_LIGHT'))


def enc_forest(exprs, limit=400):
    """Node records of SExpr.tla: {id, t, d, k} (leaf text as one string; the
    harness expands it)."""
    n = [0]

    def enc(x):
        n[0] += 1
        if n[0] > limit:
            raise ValueError('too large')
        if x.is_leaf():
            return {'id': x.id, 't': 'L', 'd': x.data, 'k': []}
        return {'id': x.id, 't': 'N', 'd': '', 'k': [enc(c) for c in x.data]}
    try:
        return [enc(e) for e in exprs]
    except Exception:  # noqa
        return None


def light(exprs):
    return {'forest': enc_forest(exprs)} if LIGHT else {}


def distinct_ids(exprs):
    try:
        ids = all_ids(exprs)
    except Exception:  # noqa
        return None
    return len(ids) == len(set(ids))


class FlagWrapper:
    """Wraps the Manager().Event proxy; logs set/clear (and is_set in the main
    process)."""

    def __init__(self, proxy):
        self.proxy = proxy

    def set(self):
        self.proxy.set()
        emit('flag_set')

    def clear(self):
        self.proxy.clear()
        emit('flag_clear')

    def is_set(self):
        v = self.proxy.is_set()
        if os.getpid() == _main_pid and threading.current_thread(
        ) is threading.main_thread():
            emit('flag_read', value=v)
        return v


class ManagerWrapper:

    def __init__(self, real):
        self.real = real

    def Event(self):
        return FlagWrapper(self.real.Event())

    def __getattr__(self, name):
        return getattr(self.real, name)


_gates = [0]


class PoolWrapper:

    def __init__(self, real, describe):
        self.real = real
        self.describe = describe

    def __enter__(self):
        self.real.__enter__()
        return self

    def __exit__(self, *a):
        return self.real.__exit__(*a)

    def imap_unordered(self, func, iterable, *a, **kw):
        it = self.real.imap_unordered(func, iterable, *a, **kw)
        describe = self.describe

        delay = float(os.environ.get('VERIF_MAIN_DELAY_MS', '0')) / 1000.0
        gate = os.environ.get('VERIF_MAIN_GATE')

        def gen():
            for r in it:
                d = describe(r)
                emit('recv', **d)
                if gate and d.get('ok'):
                    # the main loop is held between receiving a success and
                    # acting on it until the scheduler of the replay opens
                    # the gate (lib/hreplay.py: "late" completions)
                    _gates[0] += 1
                    emit('gate_wait', n=_gates[0])
                    t0 = time.time()
                    while not os.path.exists(f'{gate}.{_gates[0]}') and \
                            time.time() - t0 < 90:
                        time.sleep(0.005)
                if delay and d.get('ok'):
                    # schedule perturbation (a pure delay of the main loop
                    # between receiving a success and acting on it): the
                    # workers get time to finish further checks meanwhile
                    time.sleep(delay)
                yield r
            emit('recv_end')

        return gen()

    def __getattr__(self, name):
        return getattr(self.real, name)


def install(fault=None):
    """Wrap the functions of interest.  Must run before ddsmt main()."""
    import multiprocessing
    from ddsmt import (nodeio, checker, strategy_hierarchical as sh,
                       strategy_ddmin as sd, mutator_utils, mutators, nodes,
                       tmpfiles)

    # ---- output file -------------------------------------------------
    real_write = nodeio.write_smtlib_to_file

    def write_smtlib_to_file(filename, exprs):
        emit('write_begin', path=filename)
        try:
            return real_write(filename, exprs)
        finally:
            try:
                with open(filename) as f:
                    text = f.read()
            except OSError:
                text = None
            emit('write', path=filename, toks=toks(exprs),
                 distinct=distinct_ids(exprs), text=text)

    nodeio.write_smtlib_to_file = write_smtlib_to_file

    # ---- fault injection (C06): interrupt at the n-th low-level write of
    # the output renderer, as a SIGINT arriving at that point would
    fault = os.environ.get('VERIF_FAULT', '')
    if fault.startswith('outwrite:') or fault.startswith('oserror:'):
        # outwrite:n - KeyboardInterrupt at the n-th low-level write;
        # oserror:n  - a transient OSError (ENOSPC) there, once
        nth = int(fault.split(':')[1])
        fkind = fault.split(':')[0]
        state = {'n': 0, 'armed': False}
        real_ws = nodeio.write_smtlib

        class Proxy:

            def __init__(self, f):
                self.f = f

            def write(self, data):
                if state['armed']:
                    state['n'] += 1
                    if state['n'] == nth:
                        if fkind == 'oserror':
                            import errno
                            emit('fault', kind='OSError', at=nth)
                            raise OSError(errno.ENOSPC,
                                          'No space left on device')
                        emit('fault', kind='KeyboardInterrupt', at=nth)
                        raise KeyboardInterrupt()
                return self.f.write(data)

            def __getattr__(self, name):
                return getattr(self.f, name)

        def write_smtlib(file, exprs):
            return real_ws(Proxy(file), exprs)

        def armed_write(filename, exprs, inner=nodeio.write_smtlib_to_file):
            state['armed'] = True
            try:
                return inner(filename, exprs)
            finally:
                state['armed'] = False
                emit('fault_count', n=state['n'])

        nodeio.write_smtlib = write_smtlib
        nodeio.write_smtlib_to_file = armed_write

    # ---- checks (workers and main) -----------------------------------
    real_check_exprs = checker.check_exprs

    def check_exprs(exprs):
        res = None
        try:
            res = real_check_exprs(exprs)
            return res
        finally:
            emit('check', cand=toks(exprs), verdict=res)

    checker.check_exprs = check_exprs

    def wrap_apply(mod, tag):
        real = mod.apply_simp

        def apply_simp(exprs, simp):
            res = None
            try:
                res = real(exprs, simp)
                return res
            finally:
                emit('apply', strat=tag, base=toks(exprs), cand=toks(res))

        mod.apply_simp = apply_simp

    wrap_apply(sh, 'hier')
    wrap_apply(sd, 'ddmin')

    # ---- command executions (C10) -----------------------------------------
    real_execute = checker.execute

    def execute(cmd, filename, timeout):
        import time as _t
        t0 = _t.time()
        res = None
        try:
            res = real_execute(cmd, filename, timeout)
            return res
        finally:
            emit('exec', timeout=timeout, wall_ms=int((_t.time() - t0) * 1000),
                 exit=None if res is None else res.exit,
                 timed_out=None if res is None else (res.out is None),
                 cc=(cmd is not None and cmd == getattr(
                     __import__('ddsmt.options', fromlist=['x']).args(),
                     'cmd_cc', None)),
                 file=os.path.basename(filename))

    checker.execute = execute

    # ---- golden runs ---------------------------------------------------
    real_golden = checker.do_golden_runs

    def do_golden_runs():
        try:
            return real_golden()
        finally:
            from ddsmt import options
            g = getattr(checker, '_checker__GOLDEN', None)
            g = checker.__dict__.get('__GOLDEN')
            gcc = checker.__dict__.get('__GOLDEN_CC')
            emit('golden',
                 golden=list(g) if g else None,
                 golden_cc=list(gcc) if gcc else None,
                 timeout=options.args().timeout,
                 timeout_cc=options.args().timeout_cc)

    checker.do_golden_runs = do_golden_runs

    # ---- pool / manager -----------------------------------------------
    real_pool = multiprocessing.Pool
    real_manager = multiprocessing.Manager

    def describe(r):
        try:
            if isinstance(r, bytes):
                ok, task = pickle.loads(r)
                return {'strat': 'hier', 'node': task.nodeid, 'ok': bool(ok),
                        'name': task.name, 'cand': toks(task.exprs)
                        if ok else None, 'aborted': task.runtime is None}
            return {'strat': 'ddmin', 'id': r.task_id, 'ok': bool(r.success),
                    'cand': toks(r.exprs) if r.success else None,
                    'tests': r.tests}
        except Exception as e:  # noqa
            return {'strat': '?', 'error': repr(e)}

    def Pool(*a, **kw):
        emit('pool', jobs=a[0] if a else kw.get('processes'))
        return PoolWrapper(real_pool(*a, **kw), describe)

    def Manager(*a, **kw):
        return ManagerWrapper(real_manager(*a, **kw))

    multiprocessing.Pool = Pool
    multiprocessing.Manager = Manager

    # ---- hierarchical: passes, producer ------------------------------
    real_get_passes = sh.get_passes

    def cls_names(ms):
        if isinstance(ms, tuple):
            ms = ms[0]
        return [type(m).__name__ for m in ms]

    def inst_attrs(ms):
        # how each instance is configured (e.g. ident='assert')
        if isinstance(ms, tuple):
            ms = ms[0]
        return [{k: v for k, v in vars(m).items()
                 if isinstance(v, (str, int, bool))} for m in ms]

    def get_passes():
        res = real_get_passes()
        emit('passes', strat='hier', passes=[cls_names(p) for p in res],
             params=[p[1] if isinstance(p, tuple) else {} for p in res])
        return res

    sh.get_passes = get_passes

    real_ddmin_passes = sd.ddmin_passes

    def ddmin_passes():
        res = real_ddmin_passes()
        emit('passes', strat='ddmin', passes=[cls_names(p) for p in res])
        return res

    sd.ddmin_passes = ddmin_passes

    real_prod_init = sh.Producer.__init__
    real_generate = sh.Producer.generate

    def prod_init(self, muts, abort_flag, original, *a, **kw):
        real_prod_init(self, muts, abort_flag, original, *a, **kw)
        self._verif_original = original
        emit('sweep', muts=cls_names(muts), mattrs=inst_attrs(muts),
             base=toks(original),
             distinct=distinct_ids(original), nnodes=nodes.count_nodes(original),
             **light(original))

    def generate(self, skip, params, *a, **kw):
        # extra arguments of a refactored producer are passed through
        emit('generate', skip=skip, params=params)
        n = 0
        for task in real_generate(self, skip, params, *a, **kw):
            n += 1
            try:
                if LIGHT:
                    ct = ['<light>']
                else:
                    simp = pickle.loads(task.simp)
                    cand = mutator_utils.apply_simp(self._verif_original,
                                                    simp)
                    ct = toks(cand)
            except Exception as e:  # noqa
                ct = ['<apply failed %s>' % type(e).__name__]
            emit('task', strat='hier', tseq=n, node=task.nodeid,
                 name=task.name, cand=ct)
            yield task
        emit('generate_end', ntasks=n)

    sh.Producer.__init__ = prod_init
    sh.Producer.generate = generate

    # ---- ddmin: task generator ----------------------------------------
    TG = sd.TaskGenerator
    real_tg_init = TG.__init__
    real_tg_next = TG.__next__
    real_tg_update, real_tg_stop = TG.update, TG.stop
    real_tg_start, real_tg_reset = TG.start, TG.reset

    gen_delay = float(os.environ.get('VERIF_GEN_DELAY_MS', '0')) / 1000.0

    class SlowMutator:
        """Schedule perturbation: the generator of a parallel ddmin round
        (run by the pool's task-handler thread) is slow between its test of
        `stopped` and its read of the current input - the window between the
        model's GenBegin and GenEnd.  Behaviour is otherwise that of the
        wrapped mutator (same attributes, same str())."""

        def __init__(self, real):
            object.__setattr__(self, '_real', real)

        def __getattr__(self, name):
            v = getattr(object.__getattribute__(self, '_real'), name)
            if name == 'filter' and threading.current_thread(
            ) is not threading.main_thread():
                def slow_filter(node, v=v):
                    r = v(node)
                    time.sleep(gen_delay)
                    return r
                return slow_filter
            return v

        def __setattr__(self, name, value):
            setattr(object.__getattribute__(self, '_real'), name, value)

        def __str__(self):
            return str(object.__getattribute__(self, '_real'))

        def __repr__(self):
            return repr(object.__getattribute__(self, '_real'))

    def tg_init(self, exprs, gran, mutator, max_depth=None):
        real_tg_init(self, exprs, gran, mutator, max_depth)
        if gen_delay and self.pickled_exprs is not None and hasattr(
                mutator, 'filter'):
            self.mutator = SlowMutator(mutator)
        emit('round', mut=type(mutator).__name__, gran=self.gran,
             nsubsets=len(self.subsets), nfiltered=self.num_filtered,
             par=self.pickled_exprs is not None, base=toks(exprs),
             distinct=distinct_ids(exprs), max_depth=max_depth,
             ident=getattr(mutator, 'ident', None), **light(exprs))

    def tg_next(self):
        try:
            task = real_tg_next(self)
        except StopIteration:
            emit('gen_stop', index=self.index, stopped=self.stopped)
            raise
        if LIGHT:
            emit('task', strat='ddmin', id=task.id, light=True)
            return task
        try:
            if isinstance(task.exprs, bytes):
                base = pickle.loads(task.exprs)
                simps = pickle.loads(task.simplifications)
            else:
                base = task.exprs
                simps = pickle.loads(pickle.dumps(task.simplifications))
            cands = []
            for s in simps:
                try:
                    cands.append(toks(mutator_utils.apply_simp(base, s)))
                except Exception as e:  # noqa
                    cands.append(['<apply failed %s>' % type(e).__name__])
            emit('task', strat='ddmin', id=task.id, base=toks(base),
                 cands=cands)
        except Exception as e:  # noqa
            emit('task', strat='ddmin', id=task.id, error=repr(e))
        return task

    def tg_update(self, exprs):
        real_tg_update(self, exprs)
        emit('update', base=toks(exprs))

    def tg_stop(self):
        real_tg_stop(self)
        emit('stop')

    def tg_start(self):
        real_tg_start(self)
        emit('start')

    def tg_reset(self, index):
        real_tg_reset(self, index)
        emit('reset', index=index)

    TG.__init__ = tg_init
    TG.__next__ = tg_next
    TG.update, TG.stop = tg_update, tg_stop
    TG.start, TG.reset = tg_start, tg_reset

    # ---- ddmin: one application of a mutator (DdminOuter.tla) -----------
    real_apply_mut = sd._apply_mutator

    def _apply_mutator(mutator, exprs, max_depth=None, *a, **kw):
        emit('apply_begin', mut=type(mutator).__name__, max_depth=max_depth,
             nexprs=nodes.count_exprs(exprs),
             toks=None if LIGHT else toks(exprs))
        res = real_apply_mut(mutator, exprs, max_depth, *a, **kw)
        emit('apply_end', tests=res[1], reduced=res[2],
             nexprs=nodes.count_exprs(res[0]),
             toks=None if LIGHT else toks(res[0]))
        return res

    sd._apply_mutator = _apply_mutator

    # ---- reduplicate (C13) ----------------------------------------------
    real_redup = nodes.reduplicate

    def reduplicate(exprs):
        res = real_redup(exprs)
        emit('redup', before_distinct=distinct_ids(exprs),
             after_distinct=distinct_ids(res),
             same_tokens=toks(exprs) == toks(res),
             **({'f': enc_forest(exprs), 'g': enc_forest(res)}
                if LIGHT else {}))
        return res

    nodes.reduplicate = reduplicate

    # ---- strategies entry / exit ------------------------------------------
    for mod, tag in ((sh, 'hier'), (sd, 'ddmin')):
        real_reduce = mod.reduce

        def reduce(exprs, real_reduce=real_reduce, tag=tag):
            emit('reduce_begin', strat=tag, base=toks(exprs),
                 distinct=distinct_ids(exprs))
            res = real_reduce(exprs)
            emit('reduce_end', strat=tag, result=toks(res[0]), ntests=res[1])
            return res

        mod.reduce = reduce

    real_parse = nodeio.parse_smtlib

    def parse_smtlib(text):
        res = list(real_parse(text))
        emit('parsed', toks=toks(res), distinct=distinct_ids(res))
        return iter(res)

    nodeio.parse_smtlib = parse_smtlib

    real_auto = mutators.auto_detect_theories

    def auto_detect_theories(exprs):
        res = real_auto(exprs)
        from ddsmt import options
        ns = vars(options.args())
        emit('options', ns={k: v for k, v in ns.items()
                            if k.startswith('mutator')},
             strategy=ns.get('strategy'), jobs=ns.get('jobs'))
        return res

    mutators.auto_detect_theories = auto_detect_theories

    real_tmp_init = tmpfiles.init

    def tmp_init():
        real_tmp_init()
        emit('tmpdir', path=tmpfiles.__dict__['__TMPDIR'].name)

    tmpfiles.init = tmp_init


def main():
    global _fd, _main_pid
    args = sys.argv[1:]
    log = None
    entry = 'module'
    while args and args[0] != '--':
        if args[0] == '--log':
            log = args[1]
            args = args[2:]
        elif args[0] == '--entry':
            entry = args[1]
            args = args[2:]
        else:
            raise SystemExit('launcher: bad argument ' + args[0])
    ddsmt_argv = args[1:]
    _fd = os.open(log, os.O_WRONLY | os.O_APPEND | os.O_CREAT, 0o644)
    _main_pid = os.getpid()
    import multiprocessing
    multiprocessing.set_start_method('fork')
    sys.path.insert(0, REPO)
    sys.argv = ['ddsmt'] + ddsmt_argv
    status = None
    exc = None
    try:
        from ddsmt import __main__ as ddmain
        install()
        emit('start', argv=ddsmt_argv, entry=entry)
        status = ddmain.main()
    except SystemExit as e:
        status = e.code if isinstance(e.code, int) else (0 if e.code is None
                                                         else 1)
        exc = 'SystemExit'
    except BaseException as e:  # noqa
        exc = type(e).__name__ + ': ' + str(e)
        import traceback
        traceback.print_exc()
        status = 1
    emit('exit', status=status, exception=exc)
    sys.stdout.flush()
    sys.stderr.flush()
    # normal interpreter exit (the temporary directory removes itself then)
    sys.exit(status if isinstance(status, int) else 1)


if __name__ == '__main__':
    main()
