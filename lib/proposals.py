"""Enumerate what the real mutators propose for an input (in-process)."""
import signal
import time

import refreader


class Timeout(Exception):
    pass


def _alarm(signum, frame):
    raise Timeout()


def all_mutators(mods, only_enabled=False):
    res = []
    for tname, (module, names) in mods['mutators'].get_all_mutators().items():
        for cls in names:
            res.append(getattr(module, cls)())
    return res


def toks_of(exprs):
    return refreader.flatten(refreader.forest_to_nested(exprs))


def _arm_handlers():
    signal.signal(signal.SIGALRM, _alarm)
    signal.signal(signal.SIGVTALRM, _alarm)


def _set_timers(limit_s):
    """The limit is CPU time of this process (the machine may be loaded);
    wall time is limited ten times as generously, for a call that sleeps."""
    signal.setitimer(signal.ITIMER_VIRTUAL, limit_s)
    signal.setitimer(signal.ITIMER_REAL, 10 * limit_s)


def enumerate_proposals(mods, exprs, muts, limit_s=5.0, max_per_node=200):
    """Yield dicts: mut, idx (BFS index, 1-based), node, simp | error, dt.
    Every mutator call runs under a watchdog of `limit_s` seconds."""
    nodes = mods['nodes']
    try:
        mods['smtlib'].collect_information(exprs)
    except Exception:  # noqa: intolerance of odd shapes is C04's business
        return
    _arm_handlers()
    for idx, node in enumerate(nodes.bfs(exprs), 1):
        for m in muts:
            name = type(m).__name__
            t0 = time.process_time()
            _set_timers(limit_s)
            props = []
            err = None
            try:
                if hasattr(m, 'filter') and not m.filter(node):
                    continue
                if hasattr(m, 'mutations'):
                    for k, x in enumerate(m.mutations(node)):
                        props.append((x, False))
                        if k >= max_per_node:
                            break
                if hasattr(m, 'global_mutations'):
                    for k, x in enumerate(m.global_mutations(node, exprs)):
                        props.append((x, True))
                        if k >= max_per_node:
                            break
            except Timeout:
                err = 'timeout'
            except Exception as e:  # noqa: costs only this mutator
                err = type(e).__name__ + ': ' + str(e)
            finally:
                _set_timers(0)
            dt = time.process_time() - t0
            if err:
                yield {'mut': name, 'idx': idx, 'node': node, 'error': err,
                       'dt': dt, 'simp': None, 'global': False}
            for simp, glob in props:
                yield {'mut': name, 'idx': idx, 'node': node, 'simp': simp,
                       'global': glob, 'dt': dt, 'error': None}


def enumerate_batch(mods, exprs, muts, limit_s=5.0, max_per_node=200):
    """The calling convention of ddmin's TaskGenerator: a mutator's filter is
    asked about ALL nodes first, then the accepted nodes are asked for their
    proposals (local ones if the mutator has them, else global ones).  Yields
    the same dicts as enumerate_proposals."""
    nodes = mods['nodes']
    try:
        mods['smtlib'].collect_information(exprs)
    except Exception:  # noqa
        return
    _arm_handlers()
    allnodes = list(enumerate(nodes.bfs(exprs), 1))
    for m in muts:
        name = type(m).__name__
        acc = []
        _set_timers(limit_s * 4)
        try:
            for idx, node in allnodes:
                try:
                    if not hasattr(m, 'filter') or m.filter(node):
                        acc.append((idx, node))
                except Timeout:
                    raise
                except Exception:  # noqa
                    continue
        except Timeout:
            continue
        finally:
            _set_timers(0)
        for idx, node in acc:
            t0 = time.process_time()
            _set_timers(limit_s)
            props, err = [], None
            try:
                if hasattr(m, 'mutations'):
                    it = m.mutations(node)
                    glob = False
                elif hasattr(m, 'global_mutations'):
                    it = m.global_mutations(node, exprs)
                    glob = True
                else:
                    continue
                for k, x in enumerate(it):
                    props.append(x)
                    if k >= max_per_node:
                        break
            except Timeout:
                err = 'timeout'
            except Exception as e:  # noqa
                err = type(e).__name__ + ': ' + str(e)
            finally:
                _set_timers(0)
            dt = time.process_time() - t0
            if err:
                yield {'mut': name, 'idx': idx, 'node': node, 'error': err,
                       'dt': dt, 'simp': None, 'global': False}
            for simp in props:
                yield {'mut': name, 'idx': idx, 'node': node, 'simp': simp,
                       'global': glob, 'dt': dt, 'error': None}


def apply(mods, exprs, simp, limit_s=5.0):
    """apply_simp on a private copy of the simplification's key map (apply
    consumes identity keys).  Returns (result | None, error | None)."""
    mu = mods['mutator_utils']
    s = mu.Simplification(dict(simp.substs), list(simp.fresh_vars))
    _arm_handlers()
    _set_timers(limit_s)
    try:
        return mu.apply_simp(exprs, s), None
    except Timeout:
        return None, 'timeout'
    except Exception as e:  # noqa
        return None, type(e).__name__ + ': ' + str(e)
    finally:
        _set_timers(0)
