"""In-process access to the ddSMT working tree under test.

Does what ddsmt_main does before anything else touches the other modules:
options parsed from a real argv, logging levels `chat`/`trace` defined,
fork start method.  Nothing here changes ddSMT's behaviour.
"""
import importlib
import multiprocessing
import os
import sys

from common import REPO

_loaded = False


def load(argv=None, quiet=True):
    """Import ddsmt from REPO with options parsed from `argv`."""
    global _loaded
    if REPO not in sys.path:
        sys.path.insert(0, REPO)
    if not _loaded:
        try:
            multiprocessing.set_start_method('fork')
        except RuntimeError:
            pass
    from ddsmt import options
    if argv is None:
        argv = ['-q', '-q', 'in.smt2', 'out.smt2', 'cmd'] if quiet else [
            'in.smt2', 'out.smt2', 'cmd'
        ]
    reset_options(argv)
    from ddsmt import cli
    cli.setup_logging()
    _loaded = True
    import ddsmt
    return ddsmt


def reset_options(argv):
    from ddsmt import options
    setattr(options, '_options__PARSED_ARGS', None)
    # the module-level name is not mangled (it is not inside a class)
    options.__dict__['__PARSED_ARGS'] = None
    return options.args(list(argv))


def mods():
    """Return the ddsmt modules commonly needed."""
    names = [
        'nodes', 'nodeio', 'smtlib', 'options', 'mutators', 'mutator_utils',
        'checker', 'tmpfiles', 'cli', 'strategy_ddmin',
        'strategy_hierarchical', 'debug_utils'
    ]
    return {n: importlib.import_module('ddsmt.' + n) for n in names}
