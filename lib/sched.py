"""Controlled completion order of the checks of a real ddSMT run.

The scripted command (cmds/pred.py) connects to a Unix socket after it has
computed its answer and blocks until the scheduler releases it.  The scheduler
waits until every pool worker is blocked in a check (or nothing new arrived
for a while), then releases ONE of the blocked checks, chosen by a schedule:
a list of choices for the first decisions and a tail policy (fifo / lifo) for
the rest.  Enumerating the schedules enumerates the completion orders of the
real pool at the grain of whole checks (the interleavings below that grain are
covered by the model only); every run is validated by TLC like any other run.
"""
import json
import os
import socket
import threading
import time


class Scheduler:

    def __init__(self, path, jobs, choices, tail='fifo', quiet=0.15):
        self.path = path
        self.jobs = jobs
        self.choices = list(choices)
        self.tail = tail
        self.quiet = quiet
        self.decisions = []     # (number of blocked checks, index released)
        self.released = 0
        self._stop = False
        self._waiting = []      # (arrival number, conn, info)
        self._n = 0
        self._main_ppid = None
        self._free = False
        self._last_arrival = time.time()
        self._lock = threading.Lock()
        self._srv = socket.socket(socket.AF_UNIX, socket.SOCK_STREAM)
        if os.path.exists(path):
            os.remove(path)
        self._srv.bind(path)
        self._srv.listen(64)
        self._srv.settimeout(0.05)
        self._ta = threading.Thread(target=self._accept, daemon=True)
        self._td = threading.Thread(target=self._decide, daemon=True)
        self._ta.start()
        self._td.start()

    def _accept(self):
        while not self._stop:
            try:
                conn, _ = self._srv.accept()
            except socket.timeout:
                continue
            except OSError:
                break
            try:
                conn.settimeout(2.0)
                data = b''
                while not data.endswith(b'\n'):
                    chunk = conn.recv(65536)
                    if not chunk:
                        break
                    data += chunk
                info = json.loads(data.decode() or '{}')
            except Exception:  # noqa: a dying command; let it go
                info = {}
            if self._main_ppid is None:
                # the first run is the golden run, started by the main process
                self._main_ppid = info.get('ppid')
            if info.get('ppid') == self._main_ppid or self._free:
                # a check of the main process (golden run, sequential ddmin):
                # nothing to choose from
                try:
                    conn.sendall(b'go\n')
                    conn.close()
                except OSError:
                    pass
                self.released += 1
                continue
            with self._lock:
                self._n += 1
                self._waiting.append((self._n, conn, info))
                self._last_arrival = time.time()

    def _release(self, idx):
        with self._lock:
            n, conn, info = self._waiting.pop(idx)
        try:
            conn.sendall(b'go\n')
        except OSError:
            pass
        try:
            conn.close()
        except OSError:
            pass
        self.released += 1

    def _decide(self):
        while not self._stop:
            time.sleep(0.01)
            with self._lock:
                k = len(self._waiting)
                idle = time.time() - self._last_arrival
            if k == 0:
                continue
            if k < self.jobs and idle < self.quiet:
                continue
            if k >= self.jobs and idle < 0.03:
                continue
            if k == 1:
                idx = 0
            elif self.choices:
                idx = self.choices.pop(0) % k
                self.decisions.append((k, idx))
            elif self.tail == 'free':
                # the controlled prefix is over: let everything run
                self._free = True
                while True:
                    with self._lock:
                        if not self._waiting:
                            break
                    self._release(0)
                continue
            else:
                idx = 0 if self.tail == 'fifo' else k - 1
                self.decisions.append((k, idx))
            self._release(idx)

    def stop(self):
        self._stop = True
        try:
            self._srv.close()
        except OSError:
            pass
        with self._lock:
            rest = list(self._waiting)
            self._waiting.clear()
        for n, conn, info in rest:
            try:
                conn.sendall(b'go\n')
                conn.close()
            except OSError:
                pass
        try:
            os.remove(self.path)
        except OSError:
            pass


def client_wait(path, info, timeout=120):
    """Called by the scripted command: block until released (or until the
    scheduler is gone)."""
    try:
        s = socket.socket(socket.AF_UNIX, socket.SOCK_STREAM)
        s.settimeout(timeout)
        s.connect(path)
        s.sendall((json.dumps(info) + '\n').encode())
        s.recv(16)
        s.close()
    except OSError:
        pass
