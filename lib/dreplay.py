"""Specification -> code for sequential ddmin (DdminEmit.tla).

TLC enumerates every complete behaviour of Ddmin.tla in sequential mode over
N atoms - one per deterministic command, since with one job nothing is
scheduled - and prints the chain of adopted inputs with the verdicts asked
for.  Each behaviour becomes a real run of `--strategy ddmin -j 1` with only
the erase mutator on an input of N assertions; the scripted command accepts
exactly the inputs the behaviour's verdict function accepts.  The real
counterpart of the model's run is the first top-level mutator of ddmin
(EraseNode over the assertions, applied again until an application reduces
nothing): the inputs written while it runs must be the behaviour's chain, and
- the later mutators can only propose single removals the behaviour has
tested and rejected, or inputs the command does not know - the file at exit
must be the behaviour's last input.
"""
import os

import common
import tlaval
from hreplay import _parse_behaviours


def text_of(atoms):
    return ''.join(f'(assert a{i})\n' for i in atoms)


def toks_of(atoms):
    out = []
    for i in atoms:
        out += ['(', 'assert', f'a{i}', ')']
    return out


def behaviours(rep, natoms, timeout=900):
    wd = common.subscratch(f'ddemit{natoms}')
    cfg = os.path.join(wd, f'MC_DdminEmit{natoms}.cfg')
    with open(os.path.join(common.SPECS, 'MC_DdminEmit.cfg')) as f:
        text = f.read().replace('NAtoms = 4', f'NAtoms = {natoms}')
    with open(cfg, 'w') as f:
        f.write(text)
    res = common.run_tlc('DdminEmit', os.path.basename(cfg), files=[cfg],
                         workers=1, coverage=False, timeout=timeout,
                         name=f'DdminEmit{natoms}')
    if res.violated:
        raise common.MachineryError(
            f'DdminEmit: the specification violates {res.violated}\n' +
            common.tlc_counterexample(res.output))
    if rep is not None:
        rep.add_tlc(res, f'DdminEmit ({natoms} atoms, sequential)')
    out = []
    for v in _parse_behaviours(res.output):
        _, chain, acc, rej, final = v
        out.append({'natoms': natoms,
                    'chain': [list(c) for c in chain],
                    'accepted': sorted(list(c) for c in acc),
                    'rejected': sorted(list(c) for c in rej),
                    'final': list(final)})
    return out


def config_for(beh):
    n = beh['natoms']
    orig = list(range(1, n + 1))
    members = [toks_of(orig)] + [toks_of(c) for c in beh['accepted']]
    spec = {'mode': 'member', 'members': members}
    opts = ['--strategy', 'ddmin', '-j', '1', '--disable-all', '--erase-node']
    meta = {'strategy': 'ddmin', 'jobs': 1,
            'n': 'dreplay-' + common.digest([n, beh['accepted'],
                                             beh['rejected']])}
    return (text_of(orig), spec, opts, meta)


def compare(beh, run):
    """Differences between the behaviour and the run (empty = followed)."""
    import runs
    diffs = []
    first = []
    seen_round = False
    for e in run.events:
        if e['ev'] == 'round':
            if seen_round and e.get('ident') != 'assert':
                break       # the second mutator starts
            seen_round = True
        elif e['ev'] == 'write' and seen_round:
            first.append(e['toks'])
    want = [toks_of(c) for c in beh['chain'][1:]]
    if first != want:
        diffs.append(f'inputs adopted by the first mutator {first}, '
                     f'behaviour: {want}')
    ot = runs.out_tokens(run)
    wf = toks_of(beh['final']) if len(beh['chain']) > 1 else None
    if ot != wf:
        diffs.append(f'file at exit {ot}, behaviour: {wf}')
    return diffs


def replay_all(rep, S, plans, seed, label, parallel=8):
    """plans: list of (atoms, sample size | None)."""
    import random
    rnd = random.Random(seed)
    out = []
    nb = 0
    for natoms, n in plans:
        behs = behaviours(rep, natoms)
        nb += len(behs)
        if n is not None and n < len(behs):
            # longest chains first, then a seeded sample of the rest
            behs.sort(key=lambda b: -len(b['chain']))
            head = behs[:n // 3]
            rest = behs[n // 3:]
            rnd.shuffle(rest)
            behs = head + rest[:n - len(head)]
        cfgs = [config_for(b) for b in behs]
        items = S.validate(rep, S.execute(cfgs, label=f'{label}{natoms}',
                                          parallel=parallel, timeout=300))
        for it, b in zip(items, behs):
            out.append((it, b, compare(b, it.run)))
    rep.cov['ddmin_behaviours_generated_by_tlc'] = \
        rep.cov.get('ddmin_behaviours_generated_by_tlc', 0) + nb
    rep.cov['ddmin_behaviours_replayed'] = \
        rep.cov.get('ddmin_behaviours_replayed', 0) + len(out)
    rep.cov['ddmin_runs_following_the_behaviour'] = \
        rep.cov.get('ddmin_runs_following_the_behaviour', 0) + sum(
            1 for x in out if not x[2])
    return out
