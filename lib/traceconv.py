"""Convert launcher events + command-side log of one ddSMT run into the trace
records TraceHier.tla / TraceDdmin.tla validate.  Inputs (token sequences) are
numbered 1..n in order of first appearance; 0 = none."""


import os


class Conv:

    def __init__(self, run):
        self.run = run
        self.inputs = {}
        self.by_id = {}
        # what the command itself saw: tokens -> set of verdicts
        self.cmd = {}
        for c in run.cmdlog:
            self.cmd.setdefault(tuple(c['toks']), set()).add(bool(c['verdict']))
        self.main_pid = None
        for e in run.events:
            if e['ev'] == 'start':
                self.main_pid = e['pid']

    def num(self, toks):
        if toks is None:
            return 0
        k = tuple(toks)
        if k not in self.inputs:
            self.inputs[k] = len(self.inputs) + 1
            self.by_id[self.inputs[k]] = list(toks)
        return self.inputs[k]

    def main_events(self):
        ev = [e for e in self.run.events if e.get('pid') == self.main_pid]
        ev.sort(key=lambda e: e['mseq'])
        return ev

    def checks(self, strat):
        """(base, cand, verdict) triples from apply+check pairs of every
        process, kept only when the command-side log confirms that the command
        was run on exactly these tokens with this verdict."""
        out = []
        unconfirmed = 0
        per = {}
        for e in self.run.events:
            if e['ev'] in ('apply', 'check'):
                per.setdefault(e['pid'], []).append(e)
        for pid, evs in per.items():
            evs.sort(key=lambda e: e['seq'])
            last_apply = None
            for e in evs:
                if e['ev'] == 'apply':
                    last_apply = e
                elif e['ev'] == 'check':
                    if last_apply is None or last_apply.get(
                            'strat') != strat:
                        last_apply = None
                        continue
                    a, last_apply = last_apply, None
                    if a['cand'] != e['cand'] or e['verdict'] is None:
                        unconfirmed += 1
                        continue
                    seen = self.cmd.get(tuple(e['cand']), set())
                    unchecked = self.run.spec.get('_unchecked')
                    if bool(e['verdict']) not in seen and not unchecked:
                        unconfirmed += 1
                        continue
                    out.append({'base': self.num(a['base']),
                                'cand': self.num(e['cand']),
                                'verdict': bool(e['verdict'])})
        # de-duplicate
        seen = set()
        res = []
        for c in out:
            k = (c['base'], c['cand'], c['verdict'])
            if k not in seen:
                seen.add(k)
                res.append(c)
        return res, unconfirmed

    # ------------------------------------------------------------ ddmin outer
    def ddmin_outer(self):
        """-> trace record for TraceDdminOuter.tla (the applications of
        strategy_ddmin.reduce), or None."""
        r = self.run
        if r.timed_out or r.status != 0:
            return None
        ev = self.main_events()
        i0 = next((i for i, e in enumerate(ev)
                   if e['ev'] == 'reduce_begin' and e['strat'] == 'ddmin'),
                  None)
        i1 = next((i for i, e in enumerate(ev)
                   if e['ev'] == 'reduce_end' and e['strat'] == 'ddmin'),
                  None)
        if i0 is None or i1 is None:
            return None
        seg = ev[i0:i1 + 1]
        passes = next((e['passes'] for e in seg if e['ev'] == 'passes'
                       and e.get('strat') == 'ddmin'), None)
        if passes is None or len(passes) != 2:
            return None
        out, cur = [], None
        sizes = []
        for e in seg:
            t = e['ev']
            if t == 'apply_begin':
                cur = {'e': 'apply', 'mut': e['mut'],
                       'depth': 1 if e['max_depth'] == 1 else
                       (0 if e['max_depth'] is None else -1),
                       'nbefore': e['nexprs'], 'grans': [], 'nfiltered': -1}
                sizes.append(e['nexprs'])
            elif t == 'round' and cur is not None:
                if not cur['grans']:
                    cur['nfiltered'] = e['nfiltered']
                cur['grans'].append(e['gran'])
            elif t == 'apply_end' and cur is not None:
                cur['red'] = e['reduced']
                cur['nafter'] = e['nexprs']
                sizes.append(e['nexprs'])
                out.append(cur)
                cur = None
        nres = sum(1 for t in seg[-1]['result'] if t == '(')
        out.append({'e': 'end', 'nresult': nres})
        size0 = sum(1 for t in seg[0]['base'] if t == '(')
        return {'stage1': passes[0], 'stage2': passes[1], 'size0': size0,
                'maxsize': max(sizes + [size0, nres]) + 1, 'events': out}

    # --------------------------------------------------------------- session
    def session(self):
        """-> trace record for TraceSession.tla (composition of the phases,
        report, file at exit), or None for a run that did not finish with
        status 0."""
        import refreader
        r = self.run
        if r.timed_out or r.status != 0:
            return None
        ev = self.main_events()
        begins = [e for e in ev if e['ev'] == 'reduce_begin']
        if not begins:
            return None
        outfile = os.path.realpath(r.outfile)
        out = []
        for e in ev:
            t = e['ev']
            if t == 'reduce_begin':
                out.append({'e': 'begin', 'strat': e['strat'],
                            'base': self.num(e['base'])})
            elif t == 'reduce_end':
                out.append({'e': 'end', 'strat': e['strat'],
                            'result': self.num(e['result'])})
            elif t == 'write' and os.path.realpath(e['path']) == outfile:
                out.append({'e': 'write', 'content': self.num(e['toks'])})
        if r.out_text is None:
            fnum = 0
        else:
            try:
                fnum = self.num(refreader.lex(r.out_text))
            except refreader.ReadError:
                fnum = self.num(['<unreadable>', r.out_text])
        unable = 'unable to minimize input file' in (r.stderr + r.stdout)
        # with -qq the warning is not printed: the report cannot be observed
        nq = sum(a.count('q') for a in r.argv
                 if a.startswith('-q') and set(a[1:]) == {'q'})
        out.append({'e': 'exit', 'status': r.status, 'unable': unable,
                    'hidden': nq >= 2, 'file': fnum})
        strat = {('ddmin', ): 'ddmin', ('hier', ): 'hierarchical',
                 ('ddmin', 'hier'): 'hybrid'}.get(
                     tuple(e['strat'] for e in begins), 'hybrid')
        return {'strategy': strat, 'orig': self.num(begins[0]['base']),
                'events': out, 'ninputs': max(1, len(self.inputs))}

    # ------------------------------------------------------------------ hier
    def hier(self):
        """-> trace record for TraceHier.tla, or None if the run has no
        hierarchical part."""
        import refreader
        ev = self.main_events()
        i0 = next((i for i, e in enumerate(ev)
                   if e['ev'] == 'reduce_begin' and e['strat'] == 'hier'), None)
        if i0 is None:
            return None
        i1 = next((i for i, e in enumerate(ev)
                   if e['ev'] == 'reduce_end' and e['strat'] == 'hier'),
                  len(ev))
        seg = ev[i0:i1 + 1]
        orig = self.num(seg[0]['base'])
        passes = None
        jobs = 1
        out = []
        pending_recv = None
        def flush():
            nonlocal pending_recv
            if pending_recv is not None:
                out.append(pending_recv)
                pending_recv = None

        for k, e in enumerate(seg):
            t = e['ev']
            if e.get('thr', 'MainThread') == 'MainThread' and t not in (
                    'flag_read', ):
                flush()
            if t == 'passes' and e['strat'] == 'hier':
                passes = [p for p in e['passes'] if p]
            elif t == 'pool':
                jobs = e['jobs']
            elif t == 'sweep':
                skip = next((x['skip'] for x in seg[k + 1:]
                             if x['ev'] in ('generate', 'sweep')
                             and x['ev'] == 'generate'), None)
                # the generator body may start late: look ahead to the next
                # generate event before the next sweep
                skip = None
                for x in seg[k + 1:]:
                    if x['ev'] == 'sweep':
                        break
                    if x['ev'] == 'generate':
                        skip = x['skip']
                        break
                out.append({'e': 'sweep', 'base': self.num(e['base']),
                            'skip': -1 if skip is None else skip,
                            'muts': e['muts'], 'distinct': bool(e['distinct'])})
            elif t == 'task' and e.get('strat') == 'hier':
                out.append({'e': 'task', 'tseq': e['tseq'], 'node': e['node'],
                            'cand': self.num(e['cand'])})
            elif t == 'recv' and e.get('strat') == 'hier':
                # flag: 0/1 = value the main loop read next, 2 = not read
                pending_recv = {'e': 'recv', 'node': e['node'],
                                'ok': bool(e['ok']),
                                'cand': self.num(e['cand']), 'flag': 2}
            elif t == 'flag_read' and pending_recv is not None:
                pending_recv['flag'] = 1 if e['value'] else 0
                flush()
            elif t == 'write':
                try:
                    ft = refreader.lex(e['text']) if e['text'] is not None \
                        else None
                except refreader.ReadError:
                    ft = ['<unreadable>']
                out.append({'e': 'write', 'content': self.num(e['toks']),
                            'filetoks': self.num(ft),
                            'distinct': bool(e['distinct'])})
            elif t == 'recv_end':
                out.append({'e': 'recv_end'})
            elif t == 'reduce_end':
                out.append({'e': 'end', 'result': self.num(e['result'])})
        flush()
        checks, unconf = self.checks('hier')
        return {'strat': 'hier', 'orig': orig, 'passes': passes or [],
                'jobs': jobs, 'events': out, 'checks': checks,
                'unconfirmed_checks': unconf,
                'complete': any(x['e'] == 'end' for x in out)}

    # ----------------------------------------------------------------- ddmin
    def ddmin(self):
        """-> trace record for TraceDdmin.tla, or None."""
        import refreader
        ev = self.main_events()
        i0 = next((i for i, e in enumerate(ev)
                   if e['ev'] == 'reduce_begin' and e['strat'] == 'ddmin'),
                  None)
        if i0 is None:
            return None
        i1 = next((i for i, e in enumerate(ev)
                   if e['ev'] == 'reduce_end' and e['strat'] == 'ddmin'),
                  len(ev))
        seg = ev[i0:i1 + 1]
        orig = self.num(seg[0]['base'])
        out = []
        par = False
        last_apply = None
        nrounds = 0
        for e in seg:
            t = e['ev']
            if t == 'round':
                par = bool(e['par'])
                nrounds += 1
                out.append({'e': 'round', 'base': self.num(e['base']),
                            'distinct': bool(e['distinct']), 'par': par,
                            'mut': e['mut'], 'nsubsets': e['nsubsets']})
            elif t == 'task' and e.get('strat') == 'ddmin':
                if 'error' in e:
                    cands, base = [], 0
                else:
                    cands = [self.num(c) for c in e['cands'] if c is not None]
                    base = self.num(e['base'])
                out.append({'e': 'task', 'id': e['id'], 'base': base,
                            'cands': cands, 'par': par})
            elif t == 'recv' and e.get('strat') == 'ddmin':
                out.append({'e': 'recv', 'id': e['id'], 'ok': bool(e['ok']),
                            'cand': self.num(e['cand'])})
            elif t == 'flag_set':
                out.append({'e': 'set'})
            elif t == 'flag_clear':
                out.append({'e': 'clear'})
            elif t in ('stop', 'start', 'recv_end'):
                out.append({'e': t})
            elif t == 'reset':
                out.append({'e': 'reset', 'index': e['index']})
            elif t == 'update':
                out.append({'e': 'update', 'base': self.num(e['base']),
                            'par': par})
            elif t == 'write':
                try:
                    ft = refreader.lex(e['text']) if e['text'] is not None \
                        else None
                except refreader.ReadError:
                    ft = ['<unreadable>']
                out.append({'e': 'write', 'content': self.num(e['toks']),
                            'filetoks': self.num(ft), 'par': par,
                            'distinct': bool(e['distinct'])})
            elif t == 'apply' and e.get('strat') == 'ddmin':
                last_apply = e
            elif t == 'check' and last_apply is not None:
                a, last_apply = last_apply, None
                conf = (a['cand'] == e['cand'] and e['verdict'] is not None
                        and bool(e['verdict']) in self.cmd.get(
                            tuple(e['cand']), set()))
                out.append({'e': 'scheck', 'base': self.num(a['base']),
                            'cand': self.num(e['cand']),
                            'verdict': bool(e['verdict']) and conf})
            elif t == 'reduce_end':
                out.append({'e': 'end', 'result': self.num(e['result'])})
        checks, unconf = self.checks('ddmin')
        return {'strat': 'ddmin', 'orig': orig, 'events': out,
                'checks': checks, 'unconfirmed_checks': unconf,
                'nrounds': nrounds,
                'used_par': any(x['e'] == 'recv' for x in out),
                'complete': any(x['e'] == 'end' for x in out)}
