"""Shared machinery of the ddSMT verification framework.

* scratch directories (outside /repo and /verif, removed at exit)
* running TLC (model checking, dump, simulate) and reading its summary
* evidence files (EVIDENCE.schema.json)
* violations, known findings, replay files, exit status

Exit status convention of every check: 0 = property held on everything
explored (KNOWN-FINDING lines may be printed), 1 = at least one VIOLATION line,
2 = the machinery itself failed (TLC error, timeout, harness exception).
"""
import atexit
import hashlib
import json
import os
import re
import shutil
import subprocess
import sys
import tempfile
import time

VERIF = os.path.dirname(os.path.dirname(os.path.abspath(__file__)))
REPO = os.environ.get('DDSMT_REPO', '/repo')
SPECS = os.path.join(VERIF, 'specs')
PY = '/venv/bin/python'
NCPU = os.cpu_count() or 4
MAXSHOWN = int(os.environ.get('VERIF_MAX_SHOWN', '25'))

_scratch = None


def scratch():
    """A fresh scratch directory outside /repo and /verif; removed at exit."""
    global _scratch
    if _scratch is None:
        base = os.environ.get('VERIF_SCRATCH_BASE', '/var/tmp')
        os.makedirs(base, exist_ok=True)
        _scratch = tempfile.mkdtemp(prefix='ddsmt-verif.', dir=base)
        atexit.register(_cleanup)
    return _scratch


def _cleanup():
    global _scratch
    if _scratch and os.path.isdir(_scratch) and not os.environ.get(
            'VERIF_KEEP_SCRATCH'):
        shutil.rmtree(_scratch, ignore_errors=True)
    _scratch = None


def subscratch(name):
    d = os.path.join(scratch(), name)
    os.makedirs(d, exist_ok=True)
    return d


def seed():
    try:
        return int(os.environ.get('VERIF_SEED', '0'))
    except ValueError:
        return 0


def digest(obj):
    if not isinstance(obj, (bytes, str)):
        obj = json.dumps(obj, sort_keys=True, default=str)
    if isinstance(obj, str):
        obj = obj.encode('utf-8', 'surrogatepass')
    return hashlib.sha1(obj).hexdigest()[:16]


class MachineryError(Exception):
    pass


# --------------------------------------------------------------------------
# TLC
# --------------------------------------------------------------------------

_SUMMARY = re.compile(
    r'(\d+) states generated, (\d+) distinct states found, (\d+) states left')
_COVER = re.compile(
    r'^<(\w+) line (\d+), col \d+ to line \d+, col \d+ of module (\w+)>: '
    r'(\d+):(\d+)', re.M)


class TlcResult:

    def __init__(self):
        self.ok = False
        self.generated = 0
        self.distinct = 0
        self.violated = []  # names of violated invariants / properties
        self.errors = []
        self.output = ''
        self.coverage = {}  # action name -> (distinct, total)
        self.wall = 0.0
        self.rc = None
        self.cmd = ''
        self.prints = []

    def summary(self):
        return {
            'states': self.distinct,
            'transitions': self.generated,
            'tlc_wall_s': round(self.wall, 2),
            'actions': {k: v[1] for k, v in self.coverage.items()},
        }


def run_tlc(module,
            cfg,
            *,
            files=(),
            workers=None,
            dump=None,
            simulate=None,
            depth=None,
            tlc_seed=None,
            coverage=True,
            deadlock=False,
            timeout=1800,
            env=None,
            java_opts=None,
            name=None,
            extra=()):
    """Run TLC on specs/<module>.tla with configuration file `cfg`.

    All specs are copied to a scratch directory first (TLC writes next to the
    module).  `files` are extra files (generated modules, trace JSON) copied
    next to the spec.  Returns a TlcResult; raises MachineryError on timeouts
    and on errors that are not property violations (parse/evaluation errors).
    """
    work = subscratch('tlc-' + (name or module) + '-' + str(time.time_ns()))
    for f in os.listdir(SPECS):
        if f.endswith(('.tla', '.cfg')):
            shutil.copy(os.path.join(SPECS, f), work)
    for f in files:
        shutil.copy(f, work)
    cmd = ['tlc', '-workers', str(workers or NCPU), '-metadir',
           os.path.join(work, 'meta'), '-noGenerateSpecTE', '-config', cfg]
    if not deadlock:
        cmd.append('-deadlock')  # -deadlock DISABLES deadlock checking
    if coverage and not simulate:
        cmd += ['-coverage', '1']
    if dump:
        cmd += ['-dump', dump]
    if simulate:
        cmd += ['-simulate', simulate]
    if depth:
        cmd += ['-depth', str(depth)]
    if tlc_seed is not None:
        cmd += ['-seed', str(tlc_seed)]
    cmd += list(extra)
    cmd.append(module)
    e = dict(os.environ)
    if env:
        e.update(env)
    if java_opts:
        e['JAVA_TOOL_OPTIONS'] = java_opts
    # TLC creates a directory in java.io.tmpdir on every start and leaves it
    jtmp = os.path.join(work, 'jtmp')
    os.makedirs(jtmp, exist_ok=True)
    e['JAVA_TOOL_OPTIONS'] = (e.get('JAVA_TOOL_OPTIONS', '') +
                              ' -Djava.io.tmpdir=' + jtmp).strip()
    res = TlcResult()
    res.cmd = ' '.join(cmd)
    res.workdir = work
    t0 = time.time()
    try:
        p = subprocess.run(cmd,
                           cwd=work,
                           env=e,
                           stdout=subprocess.PIPE,
                           stderr=subprocess.STDOUT,
                           timeout=timeout)
    except subprocess.TimeoutExpired:
        subprocess.run(['pkill', '-f', work], check=False)
        raise MachineryError(f'TLC timed out after {timeout}s: {res.cmd}')
    res.wall = time.time() - t0
    res.rc = p.returncode
    out = p.stdout.decode('utf-8', 'replace')
    res.output = out
    for m in _SUMMARY.finditer(out):
        res.generated, res.distinct = int(m.group(1)), int(m.group(2))
    for m in _COVER.finditer(out):
        kind, _, _, dist, tot = m.groups()
        # the action name is the identifier TLC prints before " line"
        res.coverage[kind] = (int(dist), int(tot))
    for m in re.finditer(r'Error: Invariant (\w+) is violated', out):
        res.violated.append(m.group(1))
    for m in re.finditer(r'Error: Action property (\w+) is violated', out):
        res.violated.append(m.group(1))
    for m in re.finditer(r'Error: Action property line (\d+)', out):
        res.violated.append('action-property@' + m.group(1))
    if 'Temporal properties were violated' in out:
        res.violated.append('temporal')
    if re.search(r'Error: Deadlock reached', out):
        res.violated.append('deadlock')
    if re.search(r'postcondition .* violated|Postcondition', out) and re.search(
            r'Error:.*[Pp]ostcondition', out):
        res.violated.append('postcondition')
    if 'Assumption' in out and 'is false' in out:
        res.violated.append('assumption')
    finished = ('Model checking completed' in out
                or 'Finished in' in out) or bool(simulate)
    other_err = [
        l for l in out.splitlines()
        if l.startswith('Error:') and 'is violated' not in l
        and 'Deadlock reached' not in l and 'behavior up to' not in l
        and 'Temporal properties' not in l
    ]
    res.errors = other_err
    res.ok = finished and not res.violated and not other_err and p.returncode == 0
    if other_err and not res.violated:
        i = out.find('Error:')
        raise MachineryError('TLC error: ' + '; '.join(other_err[:3]) + '\n' +
                             out[i:i + 2500] + '\n...\n' + out[-1000:])
    if not finished and not res.violated:
        raise MachineryError('TLC did not finish:\n' + out[-3000:])
    return res


def tlc_counterexample(out):
    """Extract the printed error trace (text) from TLC output."""
    i = out.find('Error:')
    return out[i:i + 6000] if i >= 0 else ''


# --------------------------------------------------------------------------
# evidence, violations, known findings
# --------------------------------------------------------------------------


def load_known():
    path = os.path.join(VERIF, 'known_findings.json')
    if not os.path.exists(path):
        return {'findings': [], 'fixed': []}
    with open(path) as f:
        return json.load(f)


class Report:
    """Collects what one run of one check covered and found."""

    def __init__(self, pid, level, tier):
        self.pid = pid
        self.level = level
        self.tier = tier
        self.t0 = time.time()
        self.cov = {
            'evaluations': 0,
            'distinct_nontrivial': 0,
            'rule': '',
            'samples': [],
            'states': 0,
            'transitions': 0,
            'traces_validated_against_impl': 0,
            'exhaustive': False,
            'tlc_runs': [],
        }
        self.assumptions = []
        self.viol = []  # (signature, description, replay-object)
        self._seen_sig = set()
        self._nontrivial = set()
        self.known = [
            f for f in load_known().get('findings', [])
            if f.get('property') == pid
        ]
        self.known_hit = {}

    # -- coverage ---------------------------------------------------------
    def add_tlc(self, res, label):
        self.cov['states'] += res.distinct
        self.cov['transitions'] += res.generated
        s = res.summary()
        s['label'] = label
        self.cov['tlc_runs'].append(s)

    def count(self, n=1):
        self.cov['evaluations'] += n

    def nontrivial(self, key):
        self._nontrivial.add(key if isinstance(key, str) else digest(key))

    def sample(self, obj, limit=6):
        if len(self.cov['samples']) < limit:
            self.cov['samples'].append(obj)

    # -- violations -------------------------------------------------------
    def violation(self, signature, description, replay):
        """Record a violation.  `signature` identifies the failing input /
        call site / history; it is what known_findings.json lists."""
        if signature in self._seen_sig:
            return
        self._seen_sig.add(signature)
        for f in self.known:
            if _sig_match(f, signature):
                self.known_hit.setdefault(f['id'], []).append(
                    (signature, description))
                return
        self.viol.append((signature, description, replay))

    def is_known(self, signature):
        """Does `signature` belong to a recorded (not repaired) finding?"""
        return any(_sig_match(f, signature) for f in self.known)

    def finish(self, extra=None):
        self.cov['distinct_nontrivial'] = len(self._nontrivial)
        if extra:
            self.cov.update(extra)
        wall = time.time() - self.t0
        evdir = os.environ.get('VERIF_EVIDENCE_DIR',
                               os.path.join(VERIF, 'evidence'))
        os.makedirs(evdir, exist_ok=True)
        for f in self.known:
            if f['id'] in self.known_hit:
                sigs = self.known_hit[f['id']]
                print(f'KNOWN-FINDING: property={self.pid} {f["id"]}: '
                      f'{f["what"]} (re-observed on {len(sigs)} case(s), '
                      f'e.g. {sigs[0][0]})')
        self.cov['known_findings_reobserved'] = {
            k: len(v) for k, v in self.known_hit.items()
        }
        nviol = len(self.viol)
        classes = {}
        for sig, _, _ in self.viol:
            c = ':'.join(sig.split(':')[:2])
            classes[c] = classes.get(c, 0) + 1
        if classes:
            self.cov['violation_classes'] = classes
            for c, k in sorted(classes.items(), key=lambda x: -x[1])[:12]:
                print(f'  violation class {c}: {k}')
        rdir = os.environ.get('VERIF_REPLAY_DIR',
                              os.path.join(VERIF, 'replays', 'tmp'))
        shown = 0
        for sig, desc, replay in self.viol:
            if shown >= MAXSHOWN:
                shown += 1
                continue
            os.makedirs(rdir, exist_ok=True)
            path = os.path.join(rdir, f'{self.pid}-{digest(sig)}.json')
            with open(path, 'w') as fh:
                json.dump(
                    {
                        'property': self.pid,
                        'signature': sig,
                        'description': desc,
                        'replay': replay
                    },
                    fh,
                    indent=1,
                    default=str)
            if shown < MAXSHOWN:
                print(f'VIOLATION property={self.pid} replay={path}')
                print(f'  signature: {sig}')
                print(f'  {desc}'[:600])
            shown += 1
        if shown > MAXSHOWN:
            print(f'  ... {shown - MAXSHOWN} more violations (not written out)')
        ev = {
            'property_id': self.pid,
            'tier': self.tier,
            'seed': seed(),
            'level': self.level,
            'coverage': self.cov,
            'assumptions': self.assumptions,
            'wall_s': round(wall, 2),
            'violations': nviol,
        }
        with open(os.path.join(evdir, f'{self.pid}.json'), 'w') as fh:
            json.dump(ev, fh, indent=1, default=str)
        print(f'[{self.pid}] tier={self.tier} evaluations='
              f'{self.cov["evaluations"]} distinct_nontrivial='
              f'{self.cov["distinct_nontrivial"]} states={self.cov["states"]} '
              f'traces={self.cov["traces_validated_against_impl"]} '
              f'violations={nviol} wall={wall:.1f}s')
        return 1 if nviol else 0


def _sig_match(finding, signature):
    if 'signature' in finding and finding['signature'] == signature:
        return True
    for s in finding.get('signatures', []):
        if s == signature:
            return True
    rx = finding.get('signature_regex')
    if rx and re.fullmatch(rx, signature):
        return True
    return False


def main_wrapper(fn):
    """Run a check's main(); map machinery failures to exit 2."""
    try:
        rc = fn()
    except MachineryError as e:
        print('MACHINERY-ERROR:', e, file=sys.stderr)
        sys.exit(2)
    except SystemExit:
        raise
    except BaseException:  # noqa: a failure of the harness, not a finding
        import traceback
        traceback.print_exc()
        print('MACHINERY-ERROR: harness exception', file=sys.stderr)
        sys.exit(2)
    sys.exit(rc)


def tlc_generate(rep, module, cfg, *, timeout=1800, prefilter='done = TRUE',
                 files=(), workers=None):
    """Model-check `module` with `cfg` (its invariants are the model's own
    sanity properties), dump the state graph and yield the parsed final
    states.  A violated model property is a machinery failure, not a finding
    about ddSMT."""
    import tlaval
    dump = os.path.join(subscratch('dump'), cfg + '.out')
    res = run_tlc(module, cfg, dump=dump, timeout=timeout, name=cfg,
                  files=files, workers=workers)
    if res.violated:
        raise MachineryError(
            f'{module} violates its own sanity property {res.violated}:\n' +
            tlc_counterexample(res.output))
    rep.add_tlc(res, cfg)
    try:
        for st in tlaval.iter_dump(dump + '.dump', prefilter=prefilter):
            yield st
    finally:
        try:
            os.remove(dump + '.dump')
        except OSError:
            pass


def std_args():
    import argparse
    ap = argparse.ArgumentParser()
    ap.add_argument('--tier', default=os.environ.get('VERIF_TIER', 'quick'),
                    choices=['quick', 'thorough'])
    ap.add_argument('--replay')
    return ap.parse_args()
