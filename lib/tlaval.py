"""Parser for TLA+ values as printed by TLC (-dump files, error traces,
-simulate trace files) and a printer of Python values as TLA+ expressions.

Mapping:  <<a, b>> -> tuple;  {a, b} -> frozenset (or list if unhashable);
[f |-> v, ...] -> dict;  (k :> v @@ ...) -> dict;  "s" -> str;  123 -> int;
TRUE/FALSE -> bool;  identifiers (model values) -> Sym(name).
"""
import re

_TOK = re.compile(
    r'\s*(?:(<<|>>|\|->|:>|@@|[\[\]{}(),])|("(?:[^"\\]|\\.)*")|(-?\d+)|'
    r'([A-Za-z_][A-Za-z_0-9!]*))')


class Sym(str):
    pass


def _unescape(s):
    out = []
    i = 0
    while i < len(s):
        c = s[i]
        if c == '\\' and i + 1 < len(s):
            n = s[i + 1]
            out.append({'n': '\n', 't': '\t', 'r': '\r', 'f': '\f'}.get(n, n))
            i += 2
        else:
            out.append(c)
            i += 1
    return ''.join(out)


def tokenize(text):
    pos = 0
    n = len(text)
    toks = []
    while pos < n:
        m = _TOK.match(text, pos)
        if not m:
            if text[pos:].strip() == '':
                break
            raise ValueError(f'cannot tokenize at {pos}: {text[pos:pos+40]!r}')
        pos = m.end()
        if m.group(1):
            toks.append(('p', m.group(1)))
        elif m.group(2):
            toks.append(('s', _unescape(m.group(2)[1:-1])))
        elif m.group(3):
            toks.append(('i', int(m.group(3))))
        else:
            toks.append(('w', m.group(4)))
    return toks


def _freeze(items):
    try:
        return frozenset(items)
    except TypeError:
        return list(items)


class _P:

    def __init__(self, toks):
        self.t = toks
        self.i = 0

    def peek(self):
        return self.t[self.i] if self.i < len(self.t) else (None, None)

    def eat(self, val=None):
        k, v = self.t[self.i]
        if val is not None and v != val:
            raise ValueError(f'expected {val!r}, got {v!r} at token {self.i}')
        self.i += 1
        return k, v

    def value(self):
        k, v = self.eat()
        if k == 's':
            return v
        if k == 'i':
            return v
        if k == 'w':
            if v == 'TRUE':
                return True
            if v == 'FALSE':
                return False
            return Sym(v)
        if v == '<<':
            items = []
            if self.peek()[1] == '>>':
                self.eat()
                return ()
            while True:
                items.append(self.value())
                k2, v2 = self.eat()
                if v2 == '>>':
                    return tuple(items)
                if v2 != ',':
                    raise ValueError('bad tuple')
        if v == '{':
            items = []
            if self.peek()[1] == '}':
                self.eat()
                return frozenset()
            while True:
                items.append(self.value())
                k2, v2 = self.eat()
                if v2 == '}':
                    return _freeze(items)
                if v2 != ',':
                    raise ValueError('bad set')
        if v == '[':
            d = {}
            while True:
                kk, name = self.eat()
                self.eat('|->')
                d[name] = self.value()
                k2, v2 = self.eat()
                if v2 == ']':
                    return d
                if v2 != ',':
                    raise ValueError('bad record')
        if v == '(':
            d = {}
            while True:
                key = self.value()
                self.eat(':>')
                d[_hashable(key)] = self.value()
                k2, v2 = self.eat()
                if v2 == ')':
                    return d
                if v2 != '@@':
                    raise ValueError('bad function')
        raise ValueError(f'unexpected token {v!r}')


def _hashable(x):
    if isinstance(x, dict):
        return tuple(sorted((k, _hashable(v)) for k, v in x.items()))
    if isinstance(x, list):
        return tuple(_hashable(v) for v in x)
    if isinstance(x, tuple):
        return tuple(_hashable(v) for v in x)
    return x


def parse_value(text):
    p = _P(tokenize(text))
    v = p.value()
    if p.i != len(p.t):
        raise ValueError('trailing tokens')
    return v


_STATE_HDR = re.compile(r'^State (\d+):', re.M)
_CONJ = re.compile(r'^/\\ (\w+) = ', re.M)


def parse_state_body(body):
    """`/\\ v = value` lines (values may span lines) -> dict."""
    res = {}
    ms = list(_CONJ.finditer(body))
    if not ms:
        # single-variable states are printed as  v = value
        m = re.match(r'\s*(\w+) = ', body)
        if m:
            res[m.group(1)] = parse_value(body[m.end():])
        return res
    for j, m in enumerate(ms):
        end = ms[j + 1].start() if j + 1 < len(ms) else len(body)
        res[m.group(1)] = parse_value(body[m.end():end])
    return res


def iter_dump(path, prefilter=None):
    """Yield one dict per state of a TLC `-dump` file (streaming).

    `prefilter`, if given, is a substring a state's text must contain to be
    parsed at all (cheap selection of e.g. final states)."""
    body = []
    with open(path, encoding='utf-8') as f:
        for line in f:
            if line.startswith('State ') and line.rstrip().endswith(':'):
                if body:
                    b = ''.join(body)
                    if prefilter is None or prefilter in b:
                        yield parse_state_body(b)
                body = []
            else:
                body.append(line)
    if body:
        b = ''.join(body)
        if b.strip() and (prefilter is None or prefilter in b):
            yield parse_state_body(b)


_SIM_STATE = re.compile(r'^STATE_(\d+) ==\s*$', re.M)
_SIM_ACT = re.compile(r'^\\\* <(\w+) line', re.M)


def parse_sim_trace(path):
    """Parse a `-simulate file=` behaviour file -> list of (action, state)."""
    with open(path, encoding='utf-8') as f:
        text = f.read()
    hs = list(_SIM_STATE.finditer(text))
    res = []
    for j, m in enumerate(hs):
        end = hs[j + 1].start() if j + 1 < len(hs) else len(text)
        body = text[m.end():end]
        # cut trailing comment / next action marker
        am = None
        for am in _SIM_ACT.finditer(text, hs[j - 1].end() if j else 0,
                                    m.start()):
            pass
        act = am.group(1) if am else None
        body = re.split(r'^\\\*|^=+\s*$|^\s*$\n(?=\\\*)', body, flags=re.M)[0]
        res.append((act, parse_state_body(body)))
    return res


# ---------------------------------------------------------------- printing


def to_tla(v):
    """Python value -> TLA+ expression text."""
    if isinstance(v, bool):
        return 'TRUE' if v else 'FALSE'
    if isinstance(v, int):
        return str(v)
    if isinstance(v, Sym):
        return str(v)
    if isinstance(v, str):
        return '"' + v.replace('\\', '\\\\').replace('"', '\\"').replace(
            '\n', '\\n').replace('\t', '\\t').replace('\r', '\\r') + '"'
    if isinstance(v, (tuple, list)):
        return '<<' + ', '.join(to_tla(x) for x in v) + '>>'
    if isinstance(v, (set, frozenset)):
        return '{' + ', '.join(sorted(to_tla(x) for x in v)) + '}'
    if isinstance(v, dict):
        if not v:
            return '<<>>'
        if all(isinstance(k, str) and re.fullmatch(r'[A-Za-z_]\w*', k)
               for k in v):
            return '[' + ', '.join(f'{k} |-> {to_tla(x)}'
                                   for k, x in v.items()) + ']'
        return '(' + ' @@ '.join(f'{to_tla(k)} :> {to_tla(x)}'
                                 for k, x in v.items()) + ')'
    raise TypeError(f'cannot print {type(v)} as TLA+')
