"""Hand-kept well-sorted SMT-LIB seed scripts over all theories ddSMT has
mutators for (every symbol bound once), including the shapes the properties
name: constants on one side of an equality, variable/variable equalities,
defined functions used in their own arguments, let shadowing-free nesting,
nested negations, bit-vector constants in all notations, long symbol names,
string literals with doubled quotes and backslashes, top-level nodes with >= 8
children, symbols named like ddSMT's fresh ones."""

SEEDS = {
    'lia_eq_const': '''
(set-logic QF_LIA)
(declare-const x Int)
(declare-const y Int)
(assert (= x 0))
(assert (= x y))
(assert (> (+ x y 1) (* 2 y)))
(check-sat)
''',
    'lia_rel': '''
(set-logic QF_LIA)
(declare-const a Int)
(declare-const b Int)
(declare-const c Int)
(assert (< a b c))
(assert (not (>= a (- b 1))))
(assert (<= (+ a 0) (* 1 b) (+ c 1 0)))
(assert (distinct a b))
(check-sat)
''',
    'lra': '''
(set-logic QF_LRA)
(declare-const r Real)
(declare-const s Real)
(assert (> (/ r 2.0) (- s 1.5)))
(assert (= (* 1.0 r) (+ s 0.0)))
(check-sat)
''',
    'bool_nest': '''
(set-logic QF_UF)
(declare-const p Bool)
(declare-const q Bool)
(declare-const r Bool)
(assert (not (not (and p (or q (not r))))))
(assert (=> p q r))
(assert (=> p q))
(assert (xor p q))
(assert (xor p true))
(assert (= p false))
(assert (not (or p q)))
(assert (ite p q (not r)))
(check-sat)
''',
    'quant': '''
(set-logic LIA)
(declare-fun g (Int) Int)
(assert (not (forall ((u Int)) (> (g u) 0))))
(assert (not (exists ((v Int) (w Int)) (= (g v) w))))
(assert (forall ((t Int)) (! (>= (g t) t) :pattern ((g t)))))
(check-sat)
''',
    'let_fun': '''
(set-logic QF_LIA)
(declare-const a Int)
(declare-const b Int)
(define-fun f ((m Int) (n Int)) Int (+ m (* 2 n)))
(define-fun k () Int 7)
(assert (let ((z (+ a 1)) (zz (f a b))) (> (* z zz) (f z k))))
(assert (= (f (f b 1) (+ a 1)) k))
(assert (! (> a b) :named ab))
(check-sat)
(get-model)
''',
    'fun_param_names': '''
(set-logic QF_LIA)
(declare-const a Int)
(declare-const b Int)
(define-fun h ((p Int) (q Int)) Int (- p q))
(assert (> (h (+ b 1) a) (h (h a b) (h b a))))
(check-sat)
''',
    'bv': '''
(set-logic QF_BV)
(declare-const u (_ BitVec 8))
(declare-const v (_ BitVec 8))
(declare-const w (_ BitVec 4))
(assert (= (bvadd u #x01) (bvnot (bvnot v))))
(assert (bvult ((_ zero_extend 4) w) (bvand u #b11110000)))
(assert (= ((_ extract 3 0) (concat #x0 w)) ((_ extract 7 4) ((_ zero_extend 4) w))))
(assert (= ((_ sign_extend 2) ((_ zero_extend 2) w)) (concat (_ bv0 4) w)))
(assert (= (bvcomp u v) #b1))
(assert (= (ite (= u v) #b1 #b0) (bvnand #b1 #b1)))
(assert (distinct (bvmul u (_ bv3 8)) (bvshl v #x02)))
(check-sat)
''',
    'bv2': '''
(set-logic QF_BV)
(declare-const s (_ BitVec 16))
(declare-const t (_ BitVec 16))
(assert (= ((_ extract 15 8) s) ((_ extract 7 0) t)))
(assert (bvsle (bvneg (bvneg s)) (bvor t #xFFFF)))
(assert (= ((_ zero_extend 8) ((_ extract 7 0) s)) (bvlshr t #x0008)))
(assert (= (bvxor s t) ((_ repeat 2) #xAB)))
(check-sat)
''',
    'strings': '''
(set-logic QF_SLIA)
(declare-const s String)
(declare-const t String)
(declare-const i Int)
(assert (str.contains s "ab""c"))
(assert (str.prefixof "a""b" t))
(assert (str.contains t "q"))
(assert (str.contains (str.++ s t) t))
(assert (= (str.indexof s "x\\\\y" 0) i))
(assert (= t (str.replace_all s "a b" "")))
(assert (= (str.len "hello world") (+ i 11)))
(assert (str.in_re s (re.* (str.to_re "ab"))))
(check-sat)
''',
    'seq': '''
(set-logic ALL)
(declare-const q (Seq Int))
(declare-const e Int)
(assert (= (seq.nth (seq.unit e) 0) e))
(assert (= (seq.len q) 2))
(check-sat)
''',
    'fp': '''
(set-logic QF_FP)
(declare-const f (_ FloatingPoint 8 24))
(declare-const d (_ FloatingPoint 11 53))
(declare-const rm RoundingMode)
(assert (fp.lt (fp.add rm f f) f))
(assert (fp.isNaN ((_ to_fp 11 53) rm f)))
(assert (fp.eq d (fp.neg d)))
(check-sat)
''',
    'dt': '''
(set-logic ALL)
(declare-datatypes ((Lst 0)) (((nil) (cons (hd Int) (tl Lst)))))
(declare-datatype Pr ((mk (fst Int) (snd Bool))))
(declare-const l Lst)
(declare-const p Pr)
(assert (= (hd (cons 1 l)) (fst (mk 2 true))))
(assert ((_ is cons) l))
(assert (snd p))
(check-sat)
''',
    'arrays': '''
(set-logic QF_AUFLIA)
(declare-const m (Array Int Bool))
(declare-const n (Array Int (Array Int Int)))
(declare-const j Int)
(assert (select (store m j true) (+ j 0)))
(assert (= (select (select n 0) j) 3))
(check-sat)
''',
    'many_children': '''
(set-logic QF_LIA)
(declare-const x0 Int)
(declare-const x1 Int)
(declare-const x2 Int)
(assert (> x0 0))
(assert (> x1 1))
(assert (> x2 2))
(assert (< (+ x0 x1 x2 1 2 3 4 5 6 7) 100))
(assert (and (> x0 x1) (> x1 x2) (> x2 0) (> x0 1) (> x1 2) (> x2 3) (> x0 4) (> x1 5)))
(check-sat-assuming ((> x0 1) (> x1 x0)))
(push 1)
(pop 1)
(exit)
''',
    'names': '''
(set-logic ALL)
(declare-const _v (_ BitVec 8))
(declare-const v (_ BitVec 8))
(declare-const t_prefix String)
(declare-const t String)
(assert (str.contains t "z"))
(assert (= v _v))
(declare-const |quoted name| (_ BitVec 8))
(declare-const |simple| Bool)
(declare-const a_very_long_symbol_name_that_goes_on_and_on_and_on_0123456789 (_ BitVec 8))
(assert (= (bvadd _v |quoted name|) a_very_long_symbol_name_that_goes_on_and_on_and_on_0123456789))
(assert |simple|)
(check-sat)
''',
    'rec': '''
(set-logic ALL)
(define-fun-rec fact ((n Int)) Int (ite (<= n 0) 1 (* n (fact (- n 1)))))
(define-funs-rec ((ev ((x Int)) Bool) (od ((y Int)) Bool))
  ((ite (= x 0) true (od (- x 1))) (ite (= y 0) false (ev (- y 1)))))
(assert (= (fact 3) 6))
(assert (ev 4))
(check-sat)
''',
    'reduced_top': '''
(declare-const p0 Bool)
(declare-const p1 Bool)
(and p0 p1 (not p0) (or p0 p1) p1 p0 (= p0 p1) true)
(assert (or p0 p1))
(check-sat)
''',
    'comments_info': '''
; leading comment
(set-info :status sat)
(set-info :source |multi
line source|)
(set-logic QF_LIA)
(declare-const x Int) ; trailing comment
(assert (> x ; inner comment
  0))
(check-sat)
''',
}


def _quoted_punct_seeds():
    """Quoted symbols around every ASCII punctuation character: which of
    them may lose their bars (SimplifyQuotedSymbols) is a lexical question."""
    punct = "!$%&*+-./:<=>?@^_~,;'`[]{}()#\" "
    out = {}
    chunk = 8
    for k in range(0, len(punct), chunk):
        syms = ['|a%sb|' % c for c in punct[k:k + chunk]] + \
               ['|%s|' % c for c in punct[k:k + chunk]]
        text = '(set-logic QF_UF)\n' + ''.join(
            f'(declare-const {s} Bool)\n' for s in syms)
        text += '(assert (or %s))\n(check-sat)\n' % ' '.join(syms)
        out['quoted_punct_%d' % (k // chunk)] = text
    return out


SEEDS.update(_quoted_punct_seeds())

SEEDS['underscore_names'] = '''
(set-logic QF_UFBV)
(declare-const v (_ BitVec 8))
(declare-fun _v ((_ BitVec 8)) (_ BitVec 8))
(declare-const w (_ BitVec 4))
(define-fun _w ((a (_ BitVec 4))) (_ BitVec 4) (bvnot a))
(assert (= (_v v) (bvadd v #x01)))
(assert (= (_w w) #x3))
(check-sat)
'''

SEEDS['string_edge_quotes'] = '''
(set-logic QF_S)
(declare-const s String)
(assert (= s """abc"))
(assert (str.contains s "abc"""))
(assert (distinct s """" "x""y"))
(check-sat)
'''

SEEDS['late_set_info'] = '''
(set-info :smt-lib-version 2.6)
(set-logic QF_BV)
(declare-const v (_ BitVec 8))
(declare-const w (_ BitVec 8))
(declare-const s String)
(declare-const t String)
(assert (= (bvadd v w) (bvmul v #x02)))
(assert (str.contains s t))
(set-info :status sat)
(check-sat)
(assert (bvult (bvadd v w) w))
(set-info :status unsat)
(check-sat)
'''


def all_seeds():
    return [(k, v.lstrip('\n')) for k, v in sorted(SEEDS.items())]
