#!/bin/sh
# Offline setup: nothing is fetched. Verifies the toolchain the checks need.
set -e
cd "$(dirname "$0")"
command -v tlc >/dev/null
command -v java >/dev/null
test -x /venv/bin/python
/venv/bin/python -c "import sys; sys.path.insert(0,'lib'); import common" 
echo "setup ok"
