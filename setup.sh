#!/bin/sh
# Offline setup: nothing is fetched. Verifies the toolchain the checks need and
# builds the one compiled helper (the scripted command of C10).
set -e
cd "$(dirname "$0")"
command -v tlc >/dev/null
command -v java >/dev/null
command -v strace >/dev/null
test -x /venv/bin/python
mkdir -p build
cc -O1 -o build/faultcmd cmds/faultcmd.c
/venv/bin/python -c "import sys; sys.path.insert(0,'lib'); import common"
echo "setup ok"
