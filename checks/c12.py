"""C12 - tree equality, hashing, copying, pickling, traversal agree with
structure.

Decided by: specs/SExpr.tla (StructEq, Dfs, Bfs, counts) evaluated by TLC on
every forest GenForest.tla generates (with sharing); every final state is
replayed into ddsmt.nodes in-process and across a fork-based Pool(3).
"""
import copy
import json
import multiprocessing
import os
import pickle
import sys

sys.path.insert(0, os.path.join(os.path.dirname(os.path.abspath(__file__)),
                                '..', 'lib'))
import common  # noqa: E402
import ddsmt_env  # noqa: E402
import forest as F  # noqa: E402

CONFIGS = {
    'quick': [('MC_GenForest_c12q.cfg', 900)],
    'thorough': [('MC_GenForest_c12t.cfg', 3000)],
}

# leaf-label expansions: ASCII, empty string, non-BMP / combining Unicode
EXPANSIONS = [
    {'a': 'a', 'b': 'b', 'c': 'c'},
    {'a': '', 'b': 'x', 'c': '""'},
    {'a': '\U0001F600é', 'b': 'a', 'c': 'é'},
]


def _worker(blobs):
    """Runs in a pool process: unpickle forests (one blob each, so that a
    failing tree costs only itself), report what the child sees, send the
    trees back."""
    from ddsmt import nodes
    out = []
    for blob in blobs:
        try:
            fr = pickle.loads(blob)
            d = F.dfs_nodes(fr)
            one = ([n.id for n in d], [n.hash for n in d],
                   F.nested_of_nodes(fr), fr, [x.id for x in nodes.dfs(fr)])
            out.append(pickle.dumps(one))
        except Exception as e:  # noqa: reported by the parent
            out.append(pickle.dumps(('ERROR', repr(e))))
    return out


def _alloc_worker(args):
    """Runs in a pool process: wait at the barrier, then build `k` nodes as
    fast as possible; returns the ids in allocation order."""
    barrier, k, tag = args
    from ddsmt.nodes import Node
    barrier.wait(timeout=60)
    return [Node(f'{tag}n{i}').id for i in range(k)]


def id_histories(rep, tier):
    """Concurrent node construction in fork-based processes (what the pool
    workers of both strategies do in apply_simp): the histories of ids are
    judged by TLC against IdCounter.tla (Conform.tla, kind idhist)."""
    import conform
    ctx = multiprocessing.get_context('fork')
    nproc, k, rounds = (8, 4000, 6) if tier == 'quick' else (12, 8000, 25)
    cases = []
    with ctx.Manager() as mgr:
        pool = ctx.Pool(nproc)
        for r in range(rounds):
            barrier = mgr.Barrier(nproc)
            hs = pool.map(_alloc_worker,
                          [(barrier, k, f'r{r}w{w}') for w in range(nproc)],
                          chunksize=1)
            rep.count()
            dup = sum(len(h) for h in hs) - len(set(x for h in hs for x in h))
            cases.append(({'cid': len(cases), 'kind': 'idhist', 'h': hs},
                          dup))
        pool.close()
        pool.join()
    fails = conform.judge(rep, [c for c, _ in cases], 'c12-ids')
    for cid, clause in fails.items():
        rep.violation(
            'duplicate-node-ids-across-processes',
            f'{cases[cid][1]} node ids were handed out twice to '
            f'concurrently constructing processes (TLC: the history is not '
            f'a behaviour of IdCounter.tla)', {'round': cid})
    rep.nontrivial('idhist')
    return len(cases)


def _deep_worker(blob):
    """Runs in a pool process: unpickle a deep tree, hash it, compare it with
    a copy built here, send it back.  Failures are returned as values."""
    import copy
    try:
        t = pickle.loads(blob)
        ids = []
        x = t
        while not x.is_leaf():
            ids.append(x.id)
            x = x.data[-1]
        ids.append(x.id)
        c = copy.deepcopy(t)
        return pickle.dumps(('ok', hash(t), t == c, hash(c) == hash(t), ids,
                             t))
    except BaseException as e:  # noqa: RecursionError included
        return pickle.dumps(('ERROR', type(e).__name__ + ': ' + str(e)[:200]))


def deep_trees(rep, tier):
    """SExpr's laws at a depth TLC cannot build (its JSON reader stops at 255
    levels): (not (not ... x)) nested `depth` deep, freshly parsed and freshly
    built - hash and == agree with token equality, deepcopy gives an equal
    tree with new ids, a pickle round trip (in process and through a worker,
    both directions) keeps tokens and ids.  Every operation must ANSWER."""
    import copy
    import multiprocessing
    from ddsmt import nodes, nodeio
    Node = nodes.Node
    n = 0

    def spine_ids(t):
        ids = []
        while not t.is_leaf():
            ids.append(t.id)
            t = t.data[-1]
        ids.append(t.id)
        return ids

    for depth in ((40, 3000) if tier == 'quick' else (40, 600, 3000, 20000)):
        text = '(not ' * depth + 'x' + ')' * depth
        other = '(not ' * depth + 'y' + ')' * depth
        builders = {
            'parsed': lambda tx: list(nodeio.parse_smtlib(tx))[0],
        }

        def built(tx):
            t = Node(tx[5 * depth])
            for _ in range(depth):
                t = Node(Node('not'), t)
            return t
        builders['built'] = built
        for how, mk in builders.items():
            n += 1
            rep.count()
            sig = f'deep:{how}:depth={depth}'
            rp = {'deep': [how, depth]}
            try:
                a, b, c = mk(text), mk(text), mk(other)
                ops = {}
                ops['hash'] = hash(a) == hash(b)
                ops['eq'] = (a == b) and not (a != b)
                ops['neq'] = (a != c) and not (a == c)
                d = copy.deepcopy(a)
                ops['deepcopy-equal'] = d == a
                ops['deepcopy-fresh-ids'] = not (set(spine_ids(d))
                                                 & set(spine_ids(a)))
                e = pickle.loads(pickle.dumps(a))
                ops['pickle-equal'] = e == a and hash(e) == hash(a)
                ops['pickle-ids'] = spine_ids(e) == spine_ids(a)
                ops['count'] = nodes.count_nodes(a) == 2 * depth + 1
                ops['dfs'] = sum(1 for _ in nodes.dfs(a)) == 2 * depth + 1
            except BaseException as ex:  # noqa: RecursionError included
                rep.violation(sig + ':raises',
                              f'an operation on a tree nested {depth} deep '
                              f'({how}) raises {type(ex).__name__}', rp)
                continue
            for k, v in ops.items():
                if not v:
                    rep.violation(f'{sig}:{k}',
                                  f'law {k} fails on a tree nested {depth} '
                                  f'deep ({how})', rp)
            if depth > 255:
                rep.nontrivial(sig)
            # through a worker, both directions; a fresh tree (nothing asked
            # for its hash yet)
            f = mk(text)
            with multiprocessing.get_context('fork').Pool(1) as pool:
                try:
                    res = pickle.loads(pool.apply_async(
                        _deep_worker, (pickle.dumps(f), )).get(timeout=300))
                except BaseException as ex:  # noqa
                    res = ('ERROR', type(ex).__name__)
            if res[0] == 'ERROR':
                rep.violation(sig + ':xproc-raises',
                              f'a worker cannot handle a tree nested {depth} '
                              f'deep ({how}): {res[1]}', rp)
            else:
                _, h, eqc, hc, ids, back = res
                if not (eqc and hc and h == hash(f)
                        and ids == spine_ids(f) and back == f
                        and spine_ids(back) == spine_ids(f)):
                    rep.violation(sig + ':xproc',
                                  f'a tree nested {depth} deep ({how}) '
                                  f'changes on its way through a worker', rp)
    return n


def has_singleton_str(t):
    if isinstance(t, str):
        return False
    if len(t) == 1 and isinstance(t[0], str):
        return True
    return any(has_singleton_str(c) for c in t)


def check_forest(nodes, rep, recs, obs, exp, case):
    """All in-process observations for one forest; returns problems."""
    Node = nodes.Node
    bad = []
    fr = F.build_nodes(Node, recs, lambda d: exp[''.join(d)])

    def ids(it):
        return [n.id for n in it]

    for name, fn, md in (('dfs', nodes.dfs, None), ('dfs1', nodes.dfs, 1),
                         ('dfs2', nodes.dfs, 2), ('bfs', nodes.bfs, None),
                         ('bfs1', nodes.bfs, 1), ('bfs2', nodes.bfs, 2)):
        try:
            got = ids(fn(fr, md))
        except Exception as e:  # noqa
            got = repr(e)
        if got != list(obs[name]):
            bad.append((name, f'{name}(max_depth={md}) ids {got} expected '
                        f'{list(obs[name])}'))
    try:
        cn, ce = nodes.count_nodes(fr), nodes.count_exprs(fr)
    except Exception as e:  # noqa
        cn = ce = repr(e)
    if cn != obs['cn']:
        bad.append(('count_nodes', f'count_nodes {cn} expected {obs["cn"]}'))
    if ce != obs['ce']:
        bad.append(('count_exprs', f'count_exprs {ce} expected {obs["ce"]}'))
    # every position reached by the filter with an always-true predicate
    # (called the way its only caller does: max_depth None or 1)
    got = ids(nodes.filter_nodes(fr, lambda x: True, None))
    if got != list(obs['dfs']):
        bad.append(('filter_nodes', f'filter_nodes ids {got}'))
    got = ids(nodes.filter_nodes(fr, lambda x: True, 1))
    if got != list(obs['dfs1']):
        bad.append(('filter_nodes1', f'filter_nodes(max_depth=1) ids {got}'))
    if len(fr) >= 2:
        a, b = fr[0], fr[1]
        # expected equality must survive label expansion collisions
        expect = obs['eq12']
        if F.to_tuple(a) == F.to_tuple(b):
            expect = True  # two labels expanded to the same text
        for l, r, what in ((a, b, 'a==b'), (b, a, 'b==a')):
            try:
                eq = (l == r)
            except Exception as e:  # noqa
                eq = repr(e)
            if eq is not expect:
                bad.append(('eq', f'{what} is {eq}, structure says {expect}'))
        if expect and hash(a) != hash(b):
            bad.append(('hash', 'equal trees with different hashes'))
        # comparison with plain tuples/strings, which __eq__ also accepts;
        # Node(*t) turns a 1-tuple holding a string into a LEAF (constructor
        # convention), so such right-hand sides do not denote b: skipped.
        tb = F.to_tuple(b)
        try:
            eqt = expect if has_singleton_str(tb) else (a == tb)
        except Exception as e:  # noqa
            eqt = repr(e)
        if eqt is not expect:
            bad.append(('eq-tuple',
                        f'a == plain tuple/str of b is {eqt}, expected {expect}'))
        if (a != b) is expect:
            bad.append(('ne', 'a != b inconsistent with =='))
    # deepcopy: equal tree, fresh pairwise distinct identities
    for t in fr:
        try:
            c = copy.deepcopy(t)
        except Exception as e:  # noqa
            bad.append(('deepcopy', 'deepcopy raised ' + repr(e)))
            continue
        if c is None or F.to_tuple(c) != F.to_tuple(t) or not (c == t):
            bad.append(('deepcopy', 'deepcopy not equal to the original'))
            continue
        ci = ids(F.dfs_nodes([c]))
        oi = set(ids(F.dfs_nodes(fr)))
        if len(set(ci)) != len(ci) or set(ci) & oi:
            bad.append(('deepcopy-ids', f'copy ids {ci} not fresh/distinct'))
        if hash(c) != hash(t):
            bad.append(('deepcopy-hash', 'copy hash differs'))
    # pickle round trip in-process
    try:
        back = pickle.loads(pickle.dumps(fr))
        if F.ids_nested(back) != F.ids_nested(fr):
            bad.append(('pickle', 'pickle round trip changed ids/structure'))
        if [n.hash for n in F.dfs_nodes(back)] != [
                n.hash for n in F.dfs_nodes(fr)
        ]:
            bad.append(('pickle-hash', 'pickle round trip changed a hash'))
        if any(not (x == y) for x, y in zip(back, fr)):
            bad.append(('pickle-eq', 'unpickled tree not equal to original'))
    except Exception as e:  # noqa
        bad.append(('pickle', 'pickle raised ' + repr(e)))
    return fr, bad


def main():
    a = common.std_args()
    ddsmt_env.load()
    from ddsmt import nodes
    F.reserve_ids(nodes.Node)
    rep = common.Report('C12', 'model_checking', a.tier)
    rep.cov['rule'] = (
        'every forest GenForest.tla generates within the bounds (with '
        'sharing), times three leaf-text expansions (ASCII / empty string / '
        'non-BMP and combining Unicode); one case = (forest, expansion); '
        'non-trivial = at least 3 positions and at least one list; distinct '
        'by (token sequence, identity sequence, expansion)')
    rep.assumptions += [
        'hash collisions between different shapes are not constructed',
        'trees beyond the node bound are not enumerated',
    ]
    if a.replay:
        with open(a.replay) as f:
            r = json.load(f)['replay']
        if 'deep' in r:
            deep_trees(rep, a.tier)
            return rep.finish()
        _, bad = check_forest(nodes, rep, r['forest'], r['obs'],
                              EXPANSIONS[r['expansion']], 0)
        print(bad)
        if bad:
            print('VIOLATION property=C12 replay=' + a.replay)
        return 1 if bad else 0
    pool = multiprocessing.get_context('fork').Pool(3)
    pending = []
    batch = []
    n = 0

    def flush():
        if batch:
            blobs = []
            for b in batch:
                try:
                    blobs.append(pickle.dumps(b[0]))
                except Exception as e:  # noqa: reported in-process already
                    blobs.append(pickle.dumps([]))
            pending.append((list(batch), pool.apply_async(_worker, (blobs, ))))
            batch.clear()

    for cfg, tmo in CONFIGS[a.tier]:
        for st in common.tlc_generate(rep, 'MC_GenForest', cfg, timeout=tmo):
            recs, obs = st['stack'][0], st['obs']
            for ei, exp in enumerate(EXPANSIONS):
                if ei > 0 and n % 3 != ei % 3 and a.tier == 'quick':
                    # quick tier: the Unicode expansions on every third forest
                    continue
                rep.count()
                fr, bad = check_forest(nodes, rep, recs, obs, exp, n)
                key = (tuple(map(str, obs['toks'])), tuple(obs['dfs']), ei)
                if obs['cn'] >= 3 and obs['ce'] >= 1:
                    rep.nontrivial(common.digest(key))
                for kind, msg in bad:
                    rep.violation(
                        f'{kind}:forest={json.dumps(F.nested_of_recs(recs))}'
                        f':ids={list(obs["dfs"])}:exp={ei}', msg, {
                            'forest': recs,
                            'obs': obs,
                            'expansion': ei
                        })
                batch.append((fr, recs, obs, ei))
                if len(batch) >= 400:
                    flush()
            n += 1
            if n % 3000 == 1:
                rep.sample({
                    'forest': F.nested_of_recs(recs),
                    'ids_dfs': list(obs['dfs']),
                    'ids_bfs': list(obs['bfs']),
                    'eq_first_two': obs['eq12'],
                    'count_nodes': obs['cn'],
                    'count_exprs': obs['ce']
                })
    flush()
    # cross-process observations
    nx = 0
    for items, fut in pending:
        res = fut.get(timeout=600)
        for (fr, recs, obs, ei), blob in zip(items, res):
            nx += 1
            d = F.dfs_nodes(fr)
            sig = (f'forest={json.dumps(F.nested_of_recs(recs))}'
                   f':ids={list(obs["dfs"])}:exp={ei}')
            rp = {'forest': recs, 'obs': obs, 'expansion': ei}
            try:
                one = pickle.loads(blob)
            except Exception as e:  # noqa
                one = ('ERROR', 'tree sent back cannot be unpickled: ' +
                       repr(e))
            if one[0] == 'ERROR':
                rep.violation('xproc-pickle:' + sig,
                              'sending the tree to a worker and back '
                              'raised ' + one[1], rp)
                continue
            cids, chashes, cnested, cback, cdfs = one
            if cids != [x.id for x in d]:
                rep.violation('xproc-ids:' + sig,
                              f'worker sees ids {cids}, parent '
                              f'{[x.id for x in d]}', rp)
            if chashes != [x.hash for x in d]:
                rep.violation('xproc-hash:' + sig,
                              'worker sees different hashes', rp)
            if cnested != F.nested_of_nodes(fr):
                rep.violation('xproc-struct:' + sig,
                              'worker sees a different structure', rp)
            if cdfs != list(obs['dfs']):
                rep.violation('xproc-dfs:' + sig,
                              'dfs in the worker differs from the model', rp)
            if F.ids_nested(cback) != F.ids_nested(fr) or any(
                    not (x == y) for x, y in zip(cback, fr)):
                rep.violation('xproc-back:' + sig,
                              'tree sent back by the worker differs', rp)
    pool.close()
    pool.join()
    rep.cov['id_histories'] = id_histories(rep, a.tier)
    rep.cov['deep_trees'] = deep_trees(rep, a.tier)
    rep.cov['traces_validated_against_impl'] = n
    rep.cov['cross_process_cases'] = nx
    rep.cov['exhaustive'] = True
    return rep.finish()


if __name__ == '__main__':
    common.main_wrapper(main)
