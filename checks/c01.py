"""C01 - the output file reproduces the golden behaviour.

Model: Hier.tla / Ddmin.tla, invariant OutfileAccepted (the file always holds
an input the command was run on and accepted), all commands x all schedules.
Binding: end-to-end runs of the real CLI over strategies x -j x output modes x
comparison options, recorded and validated by TLC (TraceHier / TraceDdmin:
an adopted candidate was accepted by a check of exactly that candidate, the
written content is the adopted candidate, the file reads back as it); then,
from outside: the token sequence of the final file is one the command logged
as run-and-accepted, the command (and cross-check command) re-run on the file
matches the golden run under the configured comparison, and the input file is
unchanged.
"""
import json
import os
import random
import sys

sys.path.insert(0, os.path.join(os.path.dirname(os.path.abspath(__file__)),
                                '..', 'lib'))
import accept  # noqa: E402
import common  # noqa: E402
import corpus  # noqa: E402
import runs  # noqa: E402
import stratcheck as S  # noqa: E402

SEQ = ('SeqStep', 'SeqEnd')
PARA = ('GenBegin', 'GenEnd', 'Recv', 'Succ1', 'Succ2', 'BatchEnd', 'Take',
        'Work')
MODELS = {
    'quick': [('MC_Hier', 'MC_Hier_q2.cfg', 900),
              ('Ddmin', 'MC_Ddmin_par.cfg', 900, SEQ),
              ('Ddmin', 'MC_Ddmin_seq.cfg', 900, PARA)],
    'thorough': [('MC_Hier', 'MC_Hier_q2.cfg', 900),
                 ('MC_Hier', 'MC_Hier_t3.cfg', 3000),
                 ('Ddmin', 'MC_Ddmin_par3.cfg', 3000, SEQ),
                 ('Ddmin', 'MC_Ddmin_seq.cfg', 900, PARA)],
}
NRUNS = {'quick': 54, 'thorough': 300}
CLAUSES = {
    'adopted-candidate-not-accepted-by-a-check-against-current-base',
    'adopted-candidate-not-accepted-by-a-check-against-current-input',
    'written-content-is-not-the-adopted-candidate',
    'written-content-is-not-the-accepted-candidate',
    'file-tokens-differ-from-adopted-candidate',
    'file-tokens-differ-from-accepted-candidate',
    'write-without-adoption', 'write-without-accepted-candidate',
    'adoption-not-written-to-file',
    'result-differs-from-last-adopted-input', 'file-differs-from-result',
    'updated-input-is-not-the-adopted-candidate',
    'updated-input-is-not-the-accepted-candidate',
}

COMPARE = [
    ([], {}),
    ([], {}),
    (['--ignore-output'], {'ignore_output': True}),
    (['--match-out', 'bug'], {'match_out': 'bug'}),
    (['--ignore-err'], {'ignore_err': True}),
    (['--match-err', 'assertion', '--ignore-out'],
     {'match_err': 'assertion', 'ignore_out': True}),
]


# behaviours close to the accepting one: which of them match the golden run
# depends on the comparison options (accept.accept_one decides, as documented)
NEARS = [
    {'exit': 1, 'out': runs.ACCEPT['out'], 'err': 'other failure\n'},
    {'exit': 1, 'out': 'bug elsewhere\n', 'err': runs.ACCEPT['err']},
    {'exit': 1, 'out': 'bug elsewhere\n', 'err': 'other assertion\n'},
    {'exit': 1, 'out': 'sat\n', 'err': runs.ACCEPT['err']},
    {'exit': 2, 'out': runs.ACCEPT['out'], 'err': runs.ACCEPT['err']},
    {'exit': 1, 'out': runs.ACCEPT['out'], 'err': ''},
    # the golden text under other line endings
    {'exit': 1, 'out': runs.ACCEPT['out'].replace('\n', '\r\n'),
     'err': runs.ACCEPT['err']},
    {'exit': 1, 'out': runs.ACCEPT['out'],
     'err': runs.ACCEPT['err'].replace('\n', '\r')},
]


def make_configs(r, n):
    cfgs = corpus.configs(r, n)
    for i, (text, spec, opts, meta) in enumerate(cfgs):
        cmpo, cmpd = COMPARE[i % len(COMPARE)]
        opts += cmpo
        meta['compare'] = dict(cmpd)
        if i % 2 == 1:
            beh = NEARS[r.randrange(len(NEARS))]
            io = cmpd.get('ignore_output')
            g = runs.ACCEPT
            ok = accept.accept_one(
                (g['exit'], g['out'], g['err']),
                (beh['exit'], beh['out'], beh['err']),
                io or cmpd.get('ignore_out'), io or cmpd.get('ignore_err'),
                cmpd.get('match_out'), cmpd.get('match_err'))
            mk = spec.get('markers') or []
            spec['near'] = {
                'pred': ({'mode': 'contains', 'markers': mk[:1]}
                         if mk and r.random() < 0.6 else {'mode': 'always'}),
                'beh': beh, 'acceptable': ok}
        if i % 7 == 3:
            # cross check: a second scripted command with its own predicate
            cc = corpus.gen_pred(r, text, 'contains')
            cc['accept'] = {'exit': 3, 'out': 'cc-unsat\n', 'err': ''}
            cc['reject'] = {'exit': 0, 'out': 'cc-sat\n', 'err': ''}
            # candidates that keep the exit status of the cross check but
            # change its output: never acceptable here (no -cc option given),
            # whatever is ignored for the MAIN command
            cc['near'] = {'pred': {'mode': 'always'},
                          'beh': {'exit': 3, 'out': 'cc-other\n', 'err': ''},
                          'acceptable': False}
            meta['cc_spec'] = cc
            meta['compare']['cmd_cc'] = True
            meta['same_basename'] = (i % 14 == 3)
    # the golden run dies by SIGKILL and the output is ignored; candidates
    # that lose a marker hang beyond the time limit: being killed at the
    # limit is not "the same exit status"
    text = corpus.FLAT
    for k, st in enumerate(('ddmin', 'hierarchical')):
        cfgs.append((text, {'mode': 'contains', 'markers': ['check-sat', '4'],
                            'accept': {'exit': 0, 'out': '', 'err': '',
                                       'kill': 9},
                            'near': {'pred': {'mode': 'contains',
                                              'markers': ['check-sat']},
                                     'beh': {'exit': 0, 'out': 'late\n',
                                             'err': '', 'sleep_ms': 1500},
                                     'acceptable': False}},
                     ['--strategy', st, '-j', str(k + 1), '--ignore-output',
                      '--timeout', '0.4'],
                     {'strategy': st, 'jobs': k + 1, 'outmode': [],
                      'n': f'K{k}', 'compare': {'ignore_output': True}}))
    # the final file is written by the OUTPUT renderer, which is not the one
    # the candidates were checked with: long quoted tokens that the command
    # depends on, under every output mode
    long_s = '"' + ' '.join(['lorem ipsum dolor sit amet'] * 5) + '"'
    long_q = '|' + ' '.join(['consectetur adipiscing elit'] * 5) + '|'
    text = ('(set-logic QF_LIA)\n(set-info :source ' + long_q + ')\n'
            '(declare-const x Int)\n(assert (> x 0))\n(echo ' + long_s +
            ')\n(assert (< x 5))\n(check-sat)\n')
    for k, om in enumerate(((), ('--pretty-print', ), ('--wrap-lines', ),
                            ('--pretty-print', '--wrap-lines'))):
        st = ('ddmin', 'hierarchical', 'hybrid', 'hybrid')[k]
        cfgs.append((text, {'mode': 'contains',
                            'markers': [long_s, long_q, 'check-sat']},
                     ['--strategy', st, '-j', '2'] + list(om),
                     {'strategy': st, 'jobs': 2, 'outmode': list(om),
                      'n': f'Q{k}', 'compare': {}}))
    # candidates whose output is the golden one under other line endings,
    # compared exactly: never acceptable
    for k, (st, j, beh) in enumerate((('ddmin', 1, NEARS[-2]),
                                      ('hierarchical', 2, NEARS[-1]),
                                      ('hybrid', 2, NEARS[-2]))):
        cfgs.append((corpus.FLAT,
                     {'mode': 'contains', 'markers': ['check-sat', '3'],
                      'near': {'pred': {'mode': 'contains',
                                        'markers': ['check-sat']},
                               'beh': beh, 'acceptable': False}},
                     ['--strategy', st, '-j', str(j)],
                     {'strategy': st, 'jobs': j, 'outmode': [],
                      'n': f'L{k}', 'compare': {}}))
    # the failure is triggered by what the reader cannot represent (a file
    # cut off inside its last command, a stray closing parenthesis): no
    # candidate reproduces it, nothing is accepted - and then there is no
    # output file, or it holds a text the command accepted
    cut = ('(set-logic QF_UF)\n(declare-const a Bool)\n'
           '(declare-const b Bool)\n(assert (or a b))\n(check-sat)\n'
           '(assert (and a (or b')
    stray = ('(set-logic QF_UF)\n(declare-const a Bool)\n(assert a))\n'
             '(check-sat)\n')
    for k, (text, st, j, om) in enumerate((
            (cut, 'ddmin', 1, ()), (stray, 'hybrid', 2, ('--pretty-print', )),
            (cut, 'hierarchical', 2, ()), (stray, 'ddmin', 2, ()))):
        cfgs.append((text, {'mode': 'unbalanced'},
                     ['--strategy', st, '-j', str(j)] + list(om),
                     {'strategy': st, 'jobs': j, 'outmode': list(om),
                      'n': f'U{k}', 'compare': {}}))
    return cfgs


def judge(rep, items):
    for it in items:
        r = it.run
        rep.count()
        key = S.describe(it)
        sig = common.digest(key)
        if r.in_sha_after != r.in_sha_before:
            rep.violation('input-modified:' + sig,
                          f'the input file was modified; options {it.opts}',
                          S.replay_obj(it))
        if r.timed_out or r.status != 0:
            continue
        S.trace_violations(rep, it, CLAUSES)
        if r.out_text is None:
            continue
        # (whatever wrote it: the file is there)
        rep.nontrivial(sig)
        ot = runs.out_tokens(r)
        accepted = [c for c in r.cmdlog if c['verdict'] and c['toks'] == ot]
        if not accepted:
            rep.violation(
                'final-file-never-run-and-accepted:' + sig,
                f'token sequence of the output file {ot} is not one the '
                f'command was run on and accepted; options {it.opts}',
                S.replay_obj(it))
        # re-run the command(s) on the output file and on the input file
        g = runs.rerun_command(r, r.infile)
        o = runs.rerun_command(r, r.outfile)
        gcc = occ = None
        if it.meta.get('cc_spec'):
            gcc = runs.rerun_command(r, r.infile, cc=True)
            occ = runs.rerun_command(r, r.outfile, cc=True)
        if not accept.accept_all(it.meta.get('compare', {}), g, o, gcc, occ):
            rep.violation(
                'final-file-does-not-match-golden:' + sig,
                f'command on output gives {o} (cc {occ}), golden {g} '
                f'(cc {gcc}); comparison {it.meta.get("compare")}; '
                f'options {it.opts}', S.replay_obj(it))


def main():
    a = common.std_args()
    rep = common.Report('C01', 'model_checking', a.tier)
    rep.cov['rule'] = (
        'model: all behaviours of Hier.tla / Ddmin.tla for the listed '
        'configurations; runs: seeded configurations (input x command x '
        'strategy x -j 1/2/4 x default/--pretty-print/--wrap-lines x '
        'comparison options, some with a cross-check command) validated by '
        'TLC and re-checked from outside; non-trivial = the run wrote an '
        'output file; distinct by (input, command, options)')
    rep.assumptions += [
        'commands are functions of the token sequence only (scripted command)',
        'the acceptance rule used for the re-run is lib/accept.py, compared '
        'with Checker.tla by C09',
    ]
    if a.replay:
        with open(a.replay) as f:
            rp = json.load(f)['replay']
        cfgs = [(rp['input'], rp['spec'], rp['opts'], rp.get('meta', {}))] * 4
        items = S.validate(rep, S.execute(cfgs, label='replay'))
        judge(rep, items)
        S.cleanup(items)
        return rep.finish()
    S.model_check(rep, MODELS[a.tier])
    # the property is not vacuous: a faulty variant of the model is refuted
    S.model_refutes(rep, 'HierBad', 'MC_HierBad_nocheck.cfg', ['OutfileAccepted'])
    # composition of the phases (Session.tla): hand-over, report, file
    S.model_check(rep, [('Session', 'MC_Session_%s.cfg' % st, 300)
                        for st in ('ddmin', 'hierarchical', 'hybrid')])
    S.model_refutes(rep, 'Session', 'MC_Session_bad_stale-handover.cfg',
                    ['HandOver'])
    S.model_refutes(rep, 'Session', 'MC_Session_bad_stale-result.cfg',
                    ['FileIsCurrent'])
    r = random.Random(common.seed() + 1)
    cfgs = make_configs(r, NRUNS[a.tier])
    items = S.validate(rep, S.execute(cfgs, label='c01'))
    judge(rep, items)
    for it in items[:4]:
        rep.sample({'config': S.describe(it), 'status': it.run.status,
                    'output': it.run.out_text})
    rep.cov['runs'] = len(items)
    S.cleanup(items)
    return rep.finish()


if __name__ == '__main__':
    common.main_wrapper(main)
