"""C11 - applying a simplification changes exactly the designated subtrees.

Decided by: specs/SExpr.tla (SubstF, IntroduceVars) evaluated by TLC on every
(forest, simplification) GenSubst.tla generates; every final state is replayed
into ddsmt.mutator_utils.apply_simp and the result compared with the
specification's on tokens and on identities of untouched / inserted nodes;
the base must be left unmodified.
"""
import json
import os
import signal
import sys

sys.path.insert(0, os.path.join(os.path.dirname(os.path.abspath(__file__)),
                                '..', 'lib'))
import common  # noqa: E402
import ddsmt_env  # noqa: E402
import forest as F  # noqa: E402

CONFIGS = {
    'quick': [('MC_GenSubst_q1.cfg', 900), ('MC_GenSubst_q2.cfg', 900),
              ('MC_GenSubst_q3.cfg', 900), ('MC_GenSubst_q4.cfg', 900),
              ('MC_GenSubst_q5.cfg', 900)],
    'thorough': [('MC_GenSubst_t1.cfg', 3000), ('MC_GenSubst_t2.cfg', 3000),
                 ('MC_GenSubst_t3.cfg', 3000), ('MC_GenSubst_t4.cfg', 3000),
                 ('MC_GenSubst_t5.cfg', 3000)],
}


TLIMIT = 0.25  # seconds of CPU time of this process (not wall time: the
# machine may be loaded); the inputs have <= 6 nodes (microseconds of work)


class Timeout(Exception):
    pass


def _alarm(signum, frame):
    raise Timeout()


def expand(d):
    return ''.join(d)


def run_case(mods, recs, simp, obs):
    """Returns list of (kind, message)."""
    nodes, mu = mods['nodes'], mods['mutator_utils']
    Node = nodes.Node
    cache = {}
    base = F.build_nodes(Node, recs, expand, cache)
    before = F.ids_nested(base)
    substs = {}
    for k in simp['ids']:
        r = k['repl']
        substs[k['id']] = None if r['t'] == 'DEL' else F.build_nodes(
            Node, (r, ), expand, cache)[0]
    for k in simp['sts']:
        key = F.build_nodes(Node, (k['key'], ), expand, cache)[0]
        substs[key] = None if k['repl']['t'] == 'DEL' else F.build_nodes(
            Node, (k['repl'], ), expand, cache)[0]
    decls = F.build_nodes(Node, simp['decls'], expand, cache)
    repls = dict(substs)     # apply consumes identity keys
    s = mu.Simplification(substs, decls)
    bad = []
    signal.signal(signal.SIGVTALRM, _alarm)
    signal.setitimer(signal.ITIMER_VIRTUAL, TLIMIT)
    try:
        res = mu.apply_simp(base, s)
    except Timeout:
        return [('no-termination',
                 'apply_simp did not return within the time limit on a <= 6-node input')]
    except Exception as e:  # noqa
        return [('exception', 'apply_simp raised ' + repr(e))]
    finally:
        signal.setitimer(signal.ITIMER_VIRTUAL, 0)
    if F.ids_nested(base) != before:
        bad.append(('base-modified', 'the base was modified in place'))
    if isinstance(res, Node):
        res = [res]
    if res is None:
        res = []
    try:
        got_toks = F.tokens_of_nested(F.nested_of_nodes(res))
    except Exception as e:  # noqa
        return bad + [('unrenderable', 'result is not a forest: ' + repr(e))]
    exp_toks = [
        '(' if t == ('LP', ) else ')' if t == ('RP', ) else expand(t)
        for t in obs['toks']
    ]
    if got_toks != exp_toks:
        bad.append(('tokens', f'result tokens {" ".join(got_toks)!r}, '
                    f'specified {" ".join(exp_toks)!r}'))
        return bad
    # GenSubst!GroupIsSequential: a group of two identity keys with new
    # replacements (what ddmin merges into one step) equals its members
    # applied one after the other, in either order
    if (len(simp['ids']) == 2 and not simp['sts'] and not simp['decls']
            and all(k['kind'] in ('del', 'leaf', 'tree') for k in simp['ids'])
            and len({x.id for x in F.dfs_nodes(base)}) ==
            len(F.dfs_nodes(base))):
        # the group as ddmin itself builds it: the real TaskGenerator over a
        # stub mutator whose proposals are the members
        class Stub:
            def filter(self, node):
                return node.id in repls

            def mutations(self, node):
                return [mu.Simplification({node.id: repls[node.id]}, [])]

        try:
            sd = mods['strategy_ddmin']
            task = next(sd.TaskGenerator(base, None, Stub()))
            grp = list(sd._simp(base, task.simplifications))
            grp_toks = [F.tokens_of_nested(F.nested_of_nodes(
                [g] if isinstance(g, Node) else (g or []))) for g in grp]
        except Exception as e:  # noqa
            grp_toks = ['raised ' + repr(e)]
        if grp_toks != [exp_toks]:
            bad.append(('ddmin-group',
                        f'the group ddmin builds from the two members gives '
                        f'{grp_toks!r}, specified {" ".join(exp_toks)!r}'))
        for order in ((0, 1), (1, 0)):
            cur = base
            try:
                for i in order:
                    k = simp['ids'][i]
                    one = mu.Simplification({k['id']: repls[k['id']]}, [])
                    cur = mu.apply_simp(cur, one)
                    if isinstance(cur, Node):
                        cur = [cur]
                    if cur is None:
                        cur = []
                seq_toks = F.tokens_of_nested(F.nested_of_nodes(cur))
            except Exception as e:  # noqa
                bad.append(('group-sequential',
                            'applying the members one by one raised ' +
                            repr(e)))
                break
            if seq_toks != exp_toks:
                bad.append(('group-sequential',
                            f'members applied one by one (order {order}) '
                            f'give {" ".join(seq_toks)!r}, the group '
                            f'{" ".join(exp_toks)!r}'))
                break
    # identities: every specified (non-zero) identity must be found in place
    exp_nodes = []

    def walk(rs):
        for r in rs:
            exp_nodes.append(r)
            if r['t'] != 'L':
                walk(r['k'])

    walk(obs['res'])
    got_nodes = F.dfs_nodes(res)
    for e, g in zip(exp_nodes, got_nodes):
        # identities below 100 are those of base nodes at their original,
        # untouched position; inserted replacements may carry any identity
        if 0 < e['id'] < 100 and g.id != e['id']:
            bad.append(('identity',
                        f'node {g!r} should have kept identity {e["id"]}, '
                        f'has {g.id}'))
            break
    return bad


def classify(simp):
    ks = sorted(k['kind'] for k in simp['ids'])
    ss = sorted(k['kind'] for k in simp['sts'])
    return 'id[' + ','.join(ks) + ']st[' + ','.join(ss) + ']' + (
        'decl' if simp['decls'] else '')


def _replay_cfg(job):
    """TLC-generate one configuration and replay every case (runs in its own
    process)."""
    cfg, tmo, tier = job
    mods = ddsmt_env.mods()
    rep = common.Report('C11', 'model_checking', tier)
    out = {'n': 0, 'skipped': 0, 'viol': [], 'nontrivial': set(),
           'samples': []}
    ntimeouts = {}
    for st in common.tlc_generate(rep, 'MC_GenSubst', cfg, timeout=tmo):
        recs, simp, obs = st['stack'][0], st['simp'], st['obs']
        simp = {
            'ids': list(simp['ids'].values()) if isinstance(
                simp['ids'], dict) else list(simp['ids']),
            'sts': list(simp['sts'].values()) if isinstance(
                simp['sts'], dict) else list(simp['sts']),
            'decls': simp['decls']
        }
        out['n'] += 1
        cls = classify(simp)
        if ntimeouts.get(cls, 0) >= 20:
            # this class of simplification has not returned 20 times:
            # recorded as violations already; do not wait again
            out['skipped'] += 1
            continue
        bad = run_case(mods, recs, simp, obs)
        if any(k == 'no-termination' for k, _ in bad):
            ntimeouts[cls] = ntimeouts.get(cls, 0) + 1
        nest = F.nested_of_recs(recs, expand)
        if obs['toks'] != obs['base'] and any(
                isinstance(x, list) for x in nest):
            out['nontrivial'].add(common.digest([nest, simp]))
        for kind, msg in bad:
            out['viol'].append((
                f'{kind}:{classify(simp)}:forest={json.dumps(nest)}:'
                f'keys={[k["pos"] for k in simp["ids"]]}/'
                f'{[k["pos"] for k in simp["sts"]]}',
                msg + f' [forest {nest}, simplification {classify(simp)}]',
                {'forest': recs, 'simp': simp, 'obs': obs}))
        if out['n'] % 20000 == 1 and len(out['samples']) < 2:
            out['samples'].append({
                'forest': nest,
                'simplification': {
                    'identity_keys': [(k['id'], k['kind'])
                                      for k in simp['ids']],
                    'structural_keys': [
                        (F.nested_of_recs((k['key'], ), expand), k['kind'])
                        for k in simp['sts']
                    ],
                    'declarations': len(simp['decls'])
                },
                'specified_result_tokens': [expand(t) for t in obs['toks']],
                'impl_agrees': not bad
            })
    out['nontrivial'] = list(out['nontrivial'])
    out['states'] = rep.cov['states']
    out['transitions'] = rep.cov['transitions']
    out['tlc_runs'] = rep.cov['tlc_runs']
    return out

DIRECTED_INPUTS = [
    '(assert (and a b c))\n(check-sat)\n',
    '(declare-const x Int)\n(assert (> (+ x 1) (* (- x 2) (+ x 3))))\n',
    '(assert (or (and p q) (and (not p) r) s))\n',
]


def _ref_tokens(node_or_list, repl):
    """Tokens of the forest with the nodes whose id is in `repl` replaced by
    the given token lists (reference, on the structure only)."""
    out = []

    def walk(n):
        if n.id in repl:
            out.extend(repl[n.id])
        elif n.is_leaf():
            out.append(n.data)
        else:
            out.append('(')
            for c in n.data:
                walk(c)
            out.append(')')

    for e in node_or_list:
        walk(e)
    return out


def _w_apply(args):
    """In a pool worker: apply a pickled simplification to a pickled input."""
    import pickle
    from ddsmt import mutator_utils
    exprs, simp = pickle.loads(args[0]), pickle.loads(args[1])
    return pickle.dumps(mutator_utils.apply_simp(exprs, simp))


def directed(mods, rep):
    """(a) an identity key whose replacement is the numeral spelling the id
    of the designated node; (b) two simplifications computed for the same
    input, the first applied by one worker process, the second (still
    pending) applied to the result by ANOTHER worker process - both forked
    from the process that parsed the input, as the pools of the strategies
    are."""
    import multiprocessing
    import pickle
    import proposals as P
    nodes, nodeio, mu = mods['nodes'], mods['nodeio'], mods['mutator_utils']
    Node = nodes.Node
    n = 0
    for text in DIRECTED_INPUTS:
        exprs = list(nodeio.parse_smtlib(text))
        allnodes = list(nodes.dfs(exprs))
        for nd in allnodes:
            rep.count()
            n += 1
            simp = mu.Simplification({nd.id: Node(str(nd.id))}, [])
            want = _ref_tokens(exprs, {nd.id: [str(nd.id)]})
            try:
                got = P.toks_of(mu.apply_simp(exprs, simp))
            except Exception as e:  # noqa
                got = ['<exception %r>' % e]
            if got != want:
                rep.violation(
                    'numeral-spelling-the-id:' + common.digest([text]),
                    f'apply_simp with {{{nd.id}: {nd.id}}} (the node '
                    f'{str(nd)!r} replaced by the numeral that spells its '
                    f'id) gives {" ".join(got)!r}, expected '
                    f'{" ".join(want)!r}', {'input': text, 'id': nd.id})
        # (b) pairs of non-nested nodes: sibling subtrees
        pairs = []
        for par in allnodes:
            if not par.is_leaf() and len(par.data) >= 3:
                pairs.append((par.data[1], par.data[2]))
                pairs.append((par.data[-1], par.data[1]))
        ctx = multiprocessing.get_context('fork')
        for x, y in pairs[:6]:
            rep.count()
            n += 1
            s1 = mu.Simplification({x.id: Node('true')}, [])
            s2 = mu.Simplification({y.id: Node('false')}, [])
            want = _ref_tokens(exprs, {x.id: ['true'], y.id: ['false']})
            pe = pickle.dumps(exprs)
            try:
                with ctx.Pool(1) as pa, ctx.Pool(1) as pb:
                    r1 = pa.apply(_w_apply, ((pe, pickle.dumps(s1)), ))
                    r2 = pb.apply(_w_apply, ((r1, pickle.dumps(s2)), ))
                got = P.toks_of(pickle.loads(r2))
            except Exception as e:  # noqa
                got = ['<exception %r>' % e]
            if got != want:
                rep.violation(
                    'pending-simplification-in-another-worker:' +
                    common.digest([text]),
                    f'two simplifications computed for {text!r}: '
                    f'{str(x)!r} := true applied by one worker, then the '
                    f'pending {str(y)!r} := false applied to the result by '
                    f'another worker gives {" ".join(got)!r}, expected '
                    f'{" ".join(want)!r}', {'input': text})
    rep.cov['directed_cases'] = n


def main():
    a = common.std_args()
    ddsmt_env.load()
    mods = ddsmt_env.mods()
    F.reserve_ids(mods['nodes'].Node)
    rep = common.Report('C11', 'model_checking', a.tier)
    rep.cov['rule'] = (
        'every (forest, simplification) pair GenSubst.tla generates within '
        'the bounds of the configurations listed under tlc_runs; one case per '
        'final state; non-trivial = the simplification changes the forest and '
        'the forest has a list; distinct by (forest, simplification)')
    rep.assumptions += [
        'identity keys designate pairwise non-nested nodes; an identity '
        'replacement never contains a structural key (not generated)',
        'forests beyond the node bound and more than two keys of a kind are '
        'not enumerated',
        'nodes the specification leaves unspecified (rebuilt spines, copies '
        'of key shapes) may carry any identity',
    ]
    if a.replay:
        with open(a.replay) as f:
            r = json.load(f)['replay']
        bad = run_case(mods, r['forest'], r['simp'], r['obs'])
        print(bad)
        if bad:
            print('VIOLATION property=C11 replay=' + a.replay)
        return 1 if bad else 0
    # one process per configuration: TLC generates, the process replays
    import multiprocessing
    jobs = [(cfg, tmo, a.tier) for cfg, tmo in CONFIGS[a.tier]]
    with multiprocessing.get_context('fork').Pool(len(jobs)) as pool:
        parts = pool.map(_replay_cfg, jobs)
    n = skipped = 0
    for part in parts:
        n += part['n']
        skipped += part['skipped']
        rep.count(part['n'])
        rep.cov['states'] += part['states']
        rep.cov['transitions'] += part['transitions']
        rep.cov['tlc_runs'] += part['tlc_runs']
        for d in part['nontrivial']:
            rep.nontrivial(d)
        for sig, msg, rp in part['viol']:
            rep.violation(sig, msg, rp)
        for smp in part['samples']:
            rep.sample(smp)
    directed(mods, rep)
    rep.cov['traces_validated_against_impl'] = n - skipped
    rep.cov['skipped_after_repeated_timeout'] = skipped
    rep.cov['exhaustive'] = True
    return rep.finish()


if __name__ == '__main__':
    common.main_wrapper(main)
