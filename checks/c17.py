"""C17 - rewrites documented as identities preserve sort and value.

The meaning of terms is stated in TLA+ (SmtSem.tla: SortOf; SmtEval.tla: Eval
for Core, Ints, Reals, FixedSizeBitVectors, datatypes, let, defined functions
with proper scoping, quantifiers over finite domains).  The real filter /
mutations of the mutators whose documentation states an identity are run on

  * instance families of their documented patterns (all widths 1..4 and 8,
    all index values, constants in #b / #x / (_ bvN w) notation with every
    value for small widths, operands that are variables, constants and nested
    applications, actual arguments that mention names equal to formal
    parameters, let bindings that shadow or capture), and
  * every term TLC generates from GenTerms.tla (all operators x admissible
    sorts, one level of nesting),

and TLC (SemConform.tla, kind "equiv") judges every (original, replacement)
pair: same sort, and the same value under every assignment of the free
constants and of the variables bound around the position.  Floating-point
sort abbreviation is judged as equality of the denoted sorts ("sortsyn").
"""
import itertools
import json
import os
import random
import sys

sys.path.insert(0, os.path.join(os.path.dirname(os.path.abspath(__file__)),
                                '..', 'lib'))
import common  # noqa: E402
import ddsmt_env  # noqa: E402
import proposals as P  # noqa: E402
import semconform as SC  # noqa: E402

# mutator -> is the original term inside the documented form?
def _arity(n):
    return len(n) - 1


BINARY_ONLY = {'BoolEliminateImplication', 'BoolXOREliminateBinary',
               'BoolEliminateFalseEquality', 'ArithmeticNegateRelation',
               'BVElimBVComp'}
SCOPE = ['BVNormalizeConstants', 'BVEvalExtend', 'BVExtractConstants',
         'BVExtractZeroExtend', 'BvMergeExtend', 'BVMergeReducedBW',
         'BVDoubleNegation', 'BVReflexiveNand', 'BVIteToBVComp',
         'BVElimBVComp', 'BoolDoubleNegation', 'BoolDeMorgan',
         'BoolEliminateFalseEquality', 'BoolXOREliminateBinary',
         'BoolNegateQuantifier', 'BoolEliminateImplication',
         'ArithmeticNegateRelation', 'InlineDefinedFuns', 'LetSubstitution',
         'RemoveDatatypeIdentity', 'FPShortSort']
CFG = {'quick': ('MC_GenTerms_q.cfg', 600),
       'thorough': ('MC_GenTerms_t.cfg', 3000)}


def in_scope(mut, node):
    if mut in BINARY_ONLY:
        if mut == 'ArithmeticNegateRelation':
            return len(node) == 2 and not node[1].is_leaf() and \
                _arity(node[1]) == 2
        return _arity(node) == 2
    return True


# --------------------------------------------------------------------------
# instance families (scripts as text)
# --------------------------------------------------------------------------

def bv_consts(w, values=None):
    """constants of width w in every notation"""
    if values is None:
        values = range(2 ** w) if w <= 3 else sorted(
            {0, 1, 2, 2 ** (w - 1) - 1, 2 ** (w - 1), 2 ** w - 2, 2 ** w - 1,
             0xA5 % 2 ** w})
    for v in values:
        yield '#b' + format(v, f'0{w}b')
        yield f'(_ bv{v} {w})'
        if w % 4 == 0:
            yield '#x' + format(v, f'0{w // 4}x')
            if any(c in 'abcdef' for c in format(v, 'x')):
                yield '#x' + format(v, f'0{w // 4}X')


def decl(name, w):
    return f'(declare-const {name} (_ BitVec {w}))\n'


def families(tier):  # noqa: C901
    """Yield (family name, script text)."""
    widths = [1, 2, 3, 4, 8] if tier == 'thorough' else [1, 2, 3, 4]
    # --- constants: normalisation, evaluation of extensions / extractions
    for w in widths + [8]:
        body = ''.join(f'(assert (= v {c}))\n' for c in bv_consts(w))
        yield 'bv_norm', decl('v', w) + body
        for i in ([0, 1, 2, 5] if tier == 'thorough' else [0, 1, 3]):
            body = ''.join(
                f'(assert (= r ((_ {op} {i}) {c})))\n'
                for op in ('zero_extend', 'sign_extend')
                for c in bv_consts(w))
            yield 'bv_eval_extend', decl('r', w + i) + body
        pairs = [(i, j) for i in range(w) for j in range(i + 1)]
        if w == 8:
            pairs = [(7, 0), (7, 4), (3, 0), (4, 3), (7, 7), (0, 0), (6, 1)]
        for i, j in pairs:
            body = ''.join(f'(assert (= r ((_ extract {i} {j}) {c})))\n'
                           for c in bv_consts(w))
            yield 'bv_extract_const', decl('r', i - j + 1) + body
    # --- extract over zero_extend
    for w in widths:
        for k in ([0, 1, 2, 3] if w < 8 else [0, 1, 4]):
            tot = w + k
            pairs = [(i, j) for i in range(tot) for j in range(i + 1)]
            if tot > 6:
                pairs = [p for p in pairs
                         if p[0] in (0, w - 1, w, tot - 1) or
                         p[1] in (0, w - 1, w)]
            for operand in ('x', '(bvnot x)', None):
                if operand is None:
                    if w > 3:
                        continue
                    ops = list(bv_consts(w, values=[2 ** w - 1, 1]))
                else:
                    ops = [operand]
                body = ''
                for o in ops:
                    for i, j in pairs:
                        body += (f'(assert (= ((_ extract {i} {j}) '
                                 f'((_ zero_extend {k}) {o})) '
                                 f'((_ extract {i} {j}) '
                                 f'((_ zero_extend {k}) {o}))))\n')
                yield 'bv_extract_zext', decl('x', w) + body
    # --- the same with a formal parameter of a defined function that has
    # the NAME of the operand and another width (widths are looked up by
    # name): the assertions are about the constant
    for w, pw in ((4, 8), (3, 1), (2, 4)):
        k = 2
        tot = w + k
        body = ''
        for i in range(tot):
            for j in range(i + 1):
                body += (f'(assert (= ((_ extract {i} {j}) '
                         f'((_ zero_extend {k}) x)) ((_ extract {i} {j}) '
                         f'((_ zero_extend {k}) x))))\n')
        for order in (0, 1):
            fun = (f'(define-fun f ((x (_ BitVec {pw}))) (_ BitVec {pw}) '
                   f'x)\n')
            yield 'bv_extract_zext_param_name', (
                (decl('x', w) + fun if order == 0 else fun + decl('x', w))
                + body)
        # two functions sharing a parameter name at different widths
        yield 'bv_extract_zext_param_name', (
            f'(define-fun g ((p (_ BitVec {w}))) (_ BitVec {w + 1}) '
            f'((_ extract {w} 0) ((_ zero_extend 2) p)))\n'
            f'(define-fun h ((p (_ BitVec {pw}))) (_ BitVec {pw}) p)\n'
            + decl('x', w) + f'(assert (= (g x) (g x)))\n')
    # --- extract over zero_extend of a concat with an operand whose width
    # ddSMT does not know (bvlshr is not in its table) but whose value is
    # defined
    for w in [1, 2]:
        for k in [1, 3]:
            tot = 2 * w + k
            body = ''
            for o in ('(concat (bvlshr x y) x)', '(concat x (bvlshr x y))'):
                for i in range(tot):
                    for j in range(i + 1):
                        body += (f'(assert (= ((_ extract {i} {j}) '
                                 f'((_ zero_extend {k}) {o})) '
                                 f'((_ extract {i} {j}) '
                                 f'((_ zero_extend {k}) {o}))))\n')
            yield 'bv_extract_zext_concat', decl('x', w) + decl('y', w) + body
    # --- merging extensions (chains of 2 and 3, all kinds)
    for w in [1, 2, 3]:
        body = ''
        for kinds in list(itertools.product(['zero_extend', 'sign_extend'],
                                            repeat=2)) + list(
                itertools.product(['zero_extend', 'sign_extend'], repeat=3)):
            for idx in itertools.product([0, 1, 2], repeat=len(kinds)):
                if tier == 'quick' and sum(idx) > 3:
                    continue
                t = 'x'
                for kd, ix in zip(reversed(kinds), reversed(idx)):
                    t = f'((_ {kd} {ix}) {t})'
                body += f'(assert (= {t} {t}))\n'
        yield 'bv_merge_extend', decl('x', w) + body
    # --- merged bit-width reductions
    for mm, n, m in [(1, 1, 1), (1, 2, 3), (2, 0, 2), (3, 1, 0), (2, 2, 2)]:
        y = mm + n
        x = y + m
        yield 'bv_merge_reduced', (
            decl('__w', mm) +
            f'(define-fun _w () (_ BitVec {y}) ((_ zero_extend {n}) __w))\n'
            f'(define-fun w () (_ BitVec {x}) ((_ zero_extend {m}) _w))\n'
            f'(assert (= w (bvnot w)))\n')
    # --- double negation, reflexive nand, ite / bvcomp
    for w in widths:
        operands = ['x', 'y', '(bvadd x y)'] + list(
            bv_consts(w, values=[2 ** w - 1]))
        body = ''
        for o in operands:
            for a, b in itertools.product(['bvnot', 'bvneg'], repeat=2):
                body += f'(assert (= ({a} ({b} {o})) x))\n'
            body += f'(assert (= (bvnot (bvnot (bvnot {o}))) x))\n'
            body += f'(assert (= (bvnand {o} {o}) x))\n'
            body += f'(assert (= (bvnand {o} y) x))\n'
        yield 'bv_neg_nand', decl('x', w) + decl('y', w) + body
        body = ''
        for one in ('#b1', '(_ bv1 1)'):
            for zero in ('#b0', '(_ bv0 1)'):
                for a, b in [('x', 'y'), ('x', 'x'), ('(bvnot x)', 'y')]:
                    body += (f'(assert (= z (ite (= {a} {b}) {one} {zero})))\n'
                             f'(assert (= z (ite (= {a} {b}) {zero} {one})))\n'
                             f'(assert (= {one} (bvcomp {a} {b})))\n'
                             f'(assert (= {zero} (bvcomp {a} {b})))\n'
                             f'(assert (= (bvcomp {a} {b}) {one}))\n')
        yield 'bv_ite_bvcomp', (decl('x', w) + decl('y', w) + decl('z', 1) +
                                body)
    # --- Boolean laws
    ops = ['p', 'q', '(not p)', '(and p r)', '(= x y)', 'true', 'false']
    body = ''
    for a in ops:
        body += f'(assert (not (not {a})))\n(assert (= false {a}))\n'
        body += f'(assert (= {a} false))\n(assert (not (not (not {a}))))\n'
        for b in ops:
            body += (f'(assert (not (and {a} {b})))\n'
                     f'(assert (not (or {a} {b})))\n'
                     f'(assert (xor {a} {b}))\n(assert (=> {a} {b}))\n')
    body += ('(assert (not (and p q r)))\n(assert (not (or p q r (not p))))\n'
             '(assert (=> p q r))\n(assert (xor p q r))\n'
             '(assert (= false p q))\n')
    yield 'bool', ('(declare-const p Bool)\n(declare-const q Bool)\n'
                   '(declare-const r Bool)\n' + decl('x', 2) + decl('y', 2) +
                   body)
    # --- negated quantifiers over finite domains
    yield 'quant', (
        decl('x', 2) + '(declare-const p Bool)\n'
        '(declare-datatype E ((ea) (eb (sel Bool))))\n'
        '(assert (not (forall ((u (_ BitVec 2))) (bvult u x))))\n'
        '(assert (not (exists ((u (_ BitVec 2))) (= (bvadd u u) x))))\n'
        '(assert (not (forall ((u (_ BitVec 2)) (b Bool)) '
        '(or b p (= u x)))))\n'
        '(assert (not (exists ((e E)) (and ((_ is eb) e) (= (sel e) p)))))\n'
        '(assert (not (forall ((e E)) ((_ is ea) e))))\n')
    # --- negated arithmetic relations
    for srt, consts in (('Int', ['0', '2']), ('Real', ['0.5', '2.0'])):
        body = ''
        for rel in ('<', '<=', '>', '>=', '=', 'distinct'):
            for a, b in [('a', 'b'), ('a', consts[0]), (consts[1], 'b'),
                         ('(+ a b)', 'b')]:
                body += f'(assert (not ({rel} {a} {b})))\n'
            body += f'(assert (not ({rel} a b a)))\n'
        yield 'arith_negate', (f'(declare-const a {srt})\n'
                               f'(declare-const b {srt})\n' + body)
    # --- inlining of defined functions
    for srt, sub, one in (('Int', '-', '1'), ('(_ BitVec 3)', 'bvsub', '#b001')):
        add = '+' if srt == 'Int' else 'bvadd'
        calls = ['(f a b)', '(f b a)', '(f b b)', f'(f ({add} a {one}) b)',
                 f'(f b ({add} a b))', '(f (f a b) a)', '(f (f b a) (f a b))',
                 '(f c d)', '(f d a)', f'(g ({add} b a))', '(g (g a))',
                 '(f (g b) (g a))', 'k', f'(h a b c)', '(h b c a)',
                 '(h c a b)', f'(h ({add} b c) ({add} c a) ({add} a b))']
        body = ''.join(f'(assert (= {c} c))\n' for c in calls)
        yield 'inline', (
            f'(declare-const a {srt})\n(declare-const b {srt})\n'
            f'(declare-const c {srt})\n(declare-const d {srt})\n'
            f'(define-fun f ((a {srt}) (b {srt})) {srt} ({sub} a b))\n'
            f'(define-fun g ((b {srt})) {srt} ({sub} b a))\n'
            f'(define-fun h ((a {srt}) (b {srt}) (c {srt})) {srt} '
            f'({sub} ({sub} a b) c))\n'
            f'(define-fun k () {srt} ({add} a {one}))\n' + body)
    # --- let substitution: plain, nested, shadowing, capture, parallel
    lets = [
        '(let ((x (+ a 1))) (> x b))',
        '(let ((x (+ a 1))) (> (+ x x) b))',
        '(let ((x a) (y b)) (> (- x y) 0))',
        '(let ((x b) (y a)) (> (- x y) 0))',
        '(let ((x y) (y x)) (> (- x y) 0))',
        '(let ((x (+ y 1))) (let ((y 0)) (> (+ x y) 0)))',
        '(let ((x y)) (let ((y (+ x 1))) (> y x)))',
        '(let ((x 1)) (let ((x (+ x 1))) (> x a)))',
        '(let ((x a)) (let ((z (+ x 1))) (> z x)))',
        '(let ((x (+ x 1))) (> x 0))',
        '(let ((x a)) (forall ((a (_ BitVec 1))) (> x 0)))',
        '(let ((p2 (> a b))) (and p2 (not p2)))',
    ]
    yield 'let', ('(declare-const a Int)\n(declare-const b Int)\n'
                  '(declare-const x Int)\n(declare-const y Int)\n' +
                  ''.join(f'(assert {t})\n' for t in lets))
    # --- selector of constructor
    yield 'datatype', (
        '(declare-datatype P ((mk (fst (_ BitVec 2)) (snd Bool)) (nil)))\n'
        + decl('u', 2) + '(declare-const p Bool)\n(declare-const d P)\n'
        '(assert (= (fst (mk u p)) u))\n(assert (snd (mk u p)))\n'
        '(assert (= (fst (mk (bvnot u) (snd d))) (fst d)))\n'
        '(assert (snd (mk (fst (mk u p)) (snd (mk u (not p))))))\n'
        '(assert (= d (mk (fst d) (snd d))))\n')
    # --- floating-point sort abbreviation
    yield 'fp_sort', ''.join(
        f'(declare-const h{i} (_ FloatingPoint {e} {s}))\n'
        for i, (e, s) in enumerate([(5, 11), (8, 24), (11, 53), (15, 113),
                                    (3, 5), (11, 5), (5, 53), (8, 11)])) + \
        '(declare-fun cv ((_ FloatingPoint 5 11)) (_ FloatingPoint 8 24))\n'


# --------------------------------------------------------------------------

def record(mods, rep, name, text, muts, cases, meta, stats):
    nodeio = mods['nodeio']
    exprs = list(nodeio.parse_smtlib(text))
    paths = SC.paths_of(exprs)
    props, info = [], []
    syn = []
    for p in P.enumerate_proposals(mods, exprs, muts):
        mut = p['mut']
        if p['error']:
            stats['mutator_errors'][mut] = stats['mutator_errors'].get(
                mut, 0) + 1
            continue
        simp = p['simp']
        keys = list(simp.substs)
        if len(keys) != 1 or not isinstance(keys[0], int) or \
                keys[0] not in paths or simp.fresh_vars:
            continue
        repl = simp.substs[keys[0]]
        if repl is None or not in_scope(mut, p['node']):
            stats['out_of_scope'] += 1
            continue
        rep.count()
        stats['by_mutator'][mut] = stats['by_mutator'].get(mut, 0) + 1
        item = {'mutator': mut, 'node': str(p['node'])[:200],
                'replacement': str(repl)[:200], 'family': name}
        if mut == 'FPShortSort':
            syn.append((SC.enc_node(p['node']), SC.enc_node(repl), item))
            continue
        props.append([list(paths[keys[0]]), SC.enc_node(repl)])
        info.append(item)
    script = SC.enc_forest(exprs)
    if props:
        cid = len(cases)
        cases.append({'cid': cid, 'kind': 'equiv', 'script': script,
                      'props': props})
        meta[cid] = {'input': text, 'props': info}
    for o, r, item in syn:
        cid = len(cases)
        cases.append({'cid': cid, 'kind': 'sortsyn', 'script': script,
                      'orig': o, 'repl': r})
        meta[cid] = {'input': text, 'props': [item]}


def main():
    a = common.std_args()
    ddsmt_env.load()
    mods = ddsmt_env.mods()
    rep = common.Report('C17', 'model_checking', a.tier)
    rep.cov['rule'] = (
        'instance families of the documented patterns (checks/c17.py: '
        'families) and every term of GenTerms.tla; every proposal of the 21 '
        'mutators in scope with one identity key is one case; TLC evaluates '
        'original and replacement under all assignments; non-trivial = TLC '
        'evaluated both sides under at least one assignment; distinct by '
        '(mutator, original, replacement)')
    rep.assumptions += [
        'SmtSem.tla / SmtEval.tla are the trusted statement of SMT-LIB '
        'sorts and values; bit-vectors wider than 4 and Int/Real symbols '
        'are assigned sample values, not all values',
        'n-ary forms of =>, xor, =-with-false, negated relations and '
        'bvcomp equalities are outside the documented binary form',
        'a mutator that raises on an instance costs only its candidates',
    ]
    muts = [m for m in P.all_mutators(mods) if type(m).__name__ in SCOPE]
    missing = set(SCOPE) - {type(m).__name__ for m in muts}
    stats = {'by_mutator': {}, 'mutator_errors': {}, 'out_of_scope': 0,
             'scripts': 0}
    cases, meta = [], {}
    if a.replay:
        with open(a.replay) as f:
            rp = json.load(f)['replay']
        work = [('replay', rp['input'])]
    else:
        work = list(families(a.tier))
        cfg, tmo = CFG[a.tier]
        pre = None
        for st in common.tlc_generate(rep, 'GenTerms', cfg, timeout=tmo,
                                      prefilter=None):
            if not st.get('done'):
                pre = [SC.dec(x) for x in st['ann']]
                continue
            term = SC.dec(st['t'])
            leaves = set()

            def walk(x):
                if isinstance(x, str):
                    leaves.add(x)
                else:
                    for y in x:
                        walk(y)
            walk(term)
            decls = [d for d in pre
                     if d[0] == 'declare-datatype' or d[1] in leaves]
            sort = SC.render(SC.dec(st['ann'][0][2]))
            cmd = ('(assert ' + SC.render(term) + ')'
                   if st['ann'][0][1] == ('Bool',) else
                   f'(define-fun rr () {sort} {SC.render(term)})')
            work.append(('gen', '\n'.join(SC.render(d) for d in decls) +
                         '\n' + cmd + '\n'))
    for name, text in work:
        stats['scripts'] += 1
        record(mods, rep, name, text, muts, cases, meta, stats)
    verdicts = SC.judge(rep, cases, 'c17')
    tally = {}
    seen = set()
    for c in cases:
        v, detail = verdicts[c['cid']]
        m = meta[c['cid']]
        results = detail if v == 'list' else [(v, detail)]
        for k, (vv, info) in enumerate(results):
            pi = m['props'][k]
            tally[vv] = tally.get(vv, 0) + 1
            key = (pi['mutator'], pi['node'], pi['replacement'])
            if vv in ('ok', 'ok-partial') and key not in seen:
                seen.add(key)
                rep.nontrivial(key)
                rep.sample({'mutator': pi['mutator'], 'original': pi['node'],
                            'replacement': pi['replacement'],
                            'assignments_evaluated': info}, limit=8)
            if vv.startswith('skip') and os.environ.get('VERIF_DEBUG'):
                print('SKIP', vv, pi['mutator'], pi['node'][:100], '->',
                      pi['replacement'][:100])
            if vv in ('sort', 'value'):
                what = ('changes the sort' if vv == 'sort'
                        else 'changes the value')
                rep.violation(
                    f'not-an-identity-{vv}:{pi["mutator"]}:{pi["node"][:80]}',
                    f'{pi["mutator"]} rewrites {pi["node"]!r} to '
                    f'{pi["replacement"]!r}, which {what}: {str(info)[:300]}',
                    {'input': m['input'], 'mutator': pi['mutator'],
                     'node': pi['node'], 'replacement': pi['replacement'],
                     'witness': str(info)[:600]})
    rep.cov['traces_validated_against_impl'] = sum(tally.values())
    rep.cov['judge_tally'] = tally
    rep.cov.update(stats)
    rep.cov['mutators_without_instances'] = sorted(
        set(SCOPE) - set(stats['by_mutator']))
    if missing:
        rep.cov['mutators_not_in_registry'] = sorted(missing)
    return rep.finish()


if __name__ == '__main__':
    common.main_wrapper(main)
