"""C09 - a candidate is accepted iff it matches the golden run as documented.

Decided by: specs/Checker.tla (AcceptAll, written from the documentation).
TLC enumerates the product of comparison options and (exit, stdout, stderr)
outcomes of main and cross-check command and computes the verdict of each
case; every case is replayed into the real checker: options parsed from a real
argv, tmpfiles.init/copy_binaries, checker.do_golden_runs on a golden file and
checker.check_exprs on a candidate, with a scripted command whose exit code
and streams are dictated per file (real subprocesses).  The argv the command
sees is checked too (original arguments, then one file name with the input
file's extension).  lib/accept.py (used by C01 for re-runs) is compared with
the same cases.
"""
import json
import multiprocessing
import os
import sys

sys.path.insert(0, os.path.join(os.path.dirname(os.path.abspath(__file__)),
                                '..', 'lib'))
import accept  # noqa: E402
import common  # noqa: E402
import ddsmt_env  # noqa: E402

DIRECT = os.path.join(common.VERIF, 'cmds', 'direct.py')
# the match string is compared as a plain substring: its characters mean
# nothing to ddSMT.  As a regular expression it would NOT match its own text
# and WOULD match the text NEAR.
M = 'MA.CH(1)+[x]'
NEAR = 'MAXCH11x'
GOLD = {'main': {'exit': 7, 'out': f'G-out {M} line\n',
                 'err': f'G-err {M} line\n'},
        'cc': {'exit': 0, 'out': f'CC-out {M}\n', 'err': f'CC-err {M}\n'}}
DIFF_EXIT = {'main': 3, 'cc': 9}

FLAGS = ['unchecked', 'ignore_output', 'ignore_out', 'ignore_err', 'match_out',
         'match_err', 'cc', 'ignore_output_cc', 'match_out_cc', 'match_err_cc']


def stream(role, which, kind, alt=0):
    g = GOLD[role][which]
    # "different, but contains the match string": another text, or (every
    # other case) the golden text with other line endings
    diff_m = f'other {M} text\n' if alt % 2 == 0 else (
        g.replace('\n', '\r\n') if alt % 4 == 1 else g.replace('\n', '\r'))
    return {'same': g, 'diff_m': diff_m,
            'diff_nom': f'other {NEAR} text\n', 'empty': ''}[kind]


def argv_of(c, wd):
    log = os.path.join(wd, 'cmd.log')
    a = []
    for f, o in (('unchecked', '--unchecked'),
                 ('ignore_output', '--ignore-output'),
                 ('ignore_out', '--ignore-out'), ('ignore_err', '--ignore-err')):
        if c[f]:
            a.append(o)
    if c['match_out']:
        a += ['--match-out', M]
    if c['match_err']:
        a += ['--match-err', M]
    if c['cc']:
        a += ['-c', f'{DIRECT} cc {log} CCEXTRA']
        if c['ignore_output_cc']:
            a.append('--ignore-output-cc')
        if c['match_out_cc']:
            a += ['--match-out-cc', M]
        if c['match_err_cc']:
            a += ['--match-err-cc', M]
    infile = os.path.join(wd, 'golden.smt2x')
    a += ['-q', '-q', infile, os.path.join(wd, 'out.otherext'), DIRECT, 'main',
          log, 'EXTRA']
    return a, infile, log


def directive(case):
    d = {}
    for role, ex, o, e in (('main', 'exitSame', 'out', 'err'),
                           ('cc', 'ccExitSame', 'ccOut', 'ccErr')):
        d[role] = {
            'exit': GOLD[role]['exit'] if case[ex] else DIFF_EXIT[role],
            'out': stream(role, 'out', case[o], case.get('cid', 0)),
            'err': stream(role, 'err', case[e], case.get('cid', 0) // 2)
        }
    return d


def run_group(args):
    """All cases with the same flags: golden once, then every candidate."""
    flags, cases, wd = args
    os.makedirs(wd, exist_ok=True)
    os.environ['TMPDIR'] = wd
    import tempfile
    tempfile.tempdir = None
    from ddsmt import checker, nodeio, tmpfiles
    c0 = dict(zip(FLAGS, flags))
    argv, infile, log = argv_of(c0, wd)
    with open(infile, 'w') as f:
        f.write('; DIRECT ' + json.dumps({'main': GOLD['main'],
                                          'cc': GOLD['cc'], 'case': 'golden'})
                + '\n(check-sat)\n')
    out = []
    try:
        ddsmt_env.reset_options(argv)
        tmpfiles.init()
        tmpfiles.copy_binaries()
        checker.do_golden_runs()
    except SystemExit as e:
        return [(k, 'golden-exit', repr(e.code), None) for k, _ in cases]
    except Exception as e:  # noqa
        return [(k, 'golden-exception', repr(e), None) for k, _ in cases]
    for k, case in cases:
        d = directive(case)
        d['case'] = k
        text = '; DIRECT ' + json.dumps(d) + '\n(check-sat)\n'
        try:
            exprs = list(nodeio.parse_smtlib(text))
            v = checker.check_exprs(exprs)
            out.append((k, 'ok', bool(v), None))
        except Exception as e:  # noqa
            out.append((k, 'exception', repr(e), None))
    # what the command saw
    seen = []
    if os.path.exists(log):
        with open(log) as f:
            seen = [json.loads(x) for x in f if x.strip()]
    return [(k, s, v, seen if i == 0 else None)
            for i, (k, s, v, _) in enumerate(out)]


def main():
    a = common.std_args()
    ddsmt_env.load()
    rep = common.Report('C09', 'model_checking', a.tier)
    rep.cov['rule'] = (
        'every case Checker.tla generates: family "main" = all combinations '
        'of --unchecked/--ignore-output/--ignore-out/--ignore-err/--match-out/'
        '--match-err x exit same/different x 4 kinds of stdout x 4 kinds of '
        'stderr; family "cc" = the full cross-check side (3 options x exit x '
        '4 x 4) x 8 main-side situations; one real golden run per option set '
        'and one real check per case; non-trivial = not --unchecked; distinct '
        'by case')
    rep.assumptions += [
        'one concrete text per stream kind; the match string is "MA.CH(1)+[x]" (plain substring; the texts without it contain "MAXCH11x")',
        'configurations that stop at the golden run (match string absent from '
        'the golden output, --unchecked with a match string) belong to C10',
    ]
    cases = []
    if a.replay:
        with open(a.replay) as f:
            rp = json.load(f)['replay']
        cases = [(rp['case'], rp['expected'])]
    else:
        for fam in ('main', 'cc'):
            for st in common.tlc_generate(rep, 'Checker',
                                          f'MC_Checker_{fam}.cfg',
                                          timeout=600):
                cases.append((st['case'], st['expected']))
    groups = {}
    for k, (case, exp) in enumerate(cases):
        case['cid'] = k   # selects the concrete text of a stream kind
        groups.setdefault(tuple(case[f] for f in FLAGS), []).append((k, case))
    base = common.subscratch('c09')
    jobs = [(flags, cs, os.path.join(base, f'g{i}'))
            for i, (flags, cs) in enumerate(sorted(groups.items()))]
    with multiprocessing.get_context('fork').Pool(12) as pool:
        results = pool.map(run_group, jobs, chunksize=1)
    for (flags, cs, wd), res in zip(jobs, results):
        c0 = dict(zip(FLAGS, flags))
        for k, status, v, seen in res:
            case, exp = cases[k]
            rep.count()
            if not case['unchecked']:
                rep.nontrivial(common.digest(case))
            key = json.dumps(case, sort_keys=True)
            if status != 'ok':
                rep.violation(f'{status}:{key}',
                              f'checker failed on case {case}: {v}',
                              {'case': case, 'expected': exp})
                continue
            if v != exp:
                rep.violation(
                    f'verdict:{key}',
                    f'checker.check gives {v}, the documented rule gives '
                    f'{exp} for {case}', {'case': case, 'expected': exp})
            # lib/accept.py against the same case (used by C01)
            d = directive(case)
            g = (GOLD['main']['exit'], GOLD['main']['out'], GOLD['main']['err'])
            r = (d['main']['exit'], d['main']['out'], d['main']['err'])
            gc = (GOLD['cc']['exit'], GOLD['cc']['out'], GOLD['cc']['err'])
            rc = (d['cc']['exit'], d['cc']['out'], d['cc']['err'])
            cfg = {'unchecked': case['unchecked'],
                   'ignore_output': case['ignore_output'],
                   'ignore_out': case['ignore_out'],
                   'ignore_err': case['ignore_err'],
                   'match_out': M if case['match_out'] else None,
                   'match_err': M if case['match_err'] else None,
                   'cmd_cc': case['cc'],
                   'ignore_output_cc': case['ignore_output_cc'],
                   'match_out_cc': M if case['match_out_cc'] else None,
                   'match_err_cc': M if case['match_err_cc'] else None}
            if accept.accept_all(cfg, g, r, gc, rc) != exp:
                raise common.MachineryError(
                    f'lib/accept.py disagrees with Checker.tla on {case}')
            if seen is not None:
                # invocation: original arguments, then one file name with the
                # input file's extension
                for s in seen:
                    av = s['argv']
                    want = ['main', av[1], 'EXTRA'] if s['role'] == 'main' \
                        else ['cc', av[1], 'CCEXTRA']
                    if av[:-1] != want or not av[-1].endswith('.smt2x') or \
                            (c0['unchecked']):
                        rep.violation(
                            f'invocation:{json.dumps(c0, sort_keys=True)}',
                            f'the command was invoked with {av} '
                            f'(unchecked={c0["unchecked"]})',
                            {'case': case, 'expected': exp})
                        break
    for case, exp in cases[:3]:
        rep.sample({'case': case, 'expected_accept': exp})
    rep.cov['traces_validated_against_impl'] = len(cases)
    rep.cov['exhaustive'] = True
    return rep.finish()


if __name__ == '__main__':
    common.main_wrapper(main)
