"""C03 - minimisation always terminates: no mutation cycles, no-ops, hanging
mutators.

1. Control: Termination (liveness under weak fairness) of Hier.tla and
   Ddmin.tla for acyclic reduction systems, TLC; real runs against
   adversarial commands must complete and TLC rejects a trace that revisits an
   input (NoRevisit on TraceHier/TraceDdmin).
2. The proposal relation: the closure of the REAL mutators' proposals around
   small seed inputs is recorded (identity of an input = token sequence) and
   emitted as module RewriteGraph; TLC checks Rewrite.tla's Decreasing (every
   proposal strictly lowers the rank = no cycle) and Changes (no proposal
   leaves the input unchanged) over every recorded edge.  A cycle is confirmed
   end to end by running ddSMT against the command that accepts exactly the
   members of the cycle.
3. Every mutator call during the exploration runs under a watchdog.
"""
import json
import os
import random
import sys
import time

sys.path.insert(0, os.path.join(os.path.dirname(os.path.abspath(__file__)),
                                '..', 'lib'))
import common  # noqa: E402
import ddsmt_env  # noqa: E402
import proposals as P  # noqa: E402
import refreader  # noqa: E402
import runs  # noqa: E402
import stratcheck as S  # noqa: E402
import corpus  # noqa: E402

SEQ = ('SeqStep', 'SeqEnd')
PARA = ('GenBegin', 'GenEnd', 'Recv', 'Succ1', 'Succ2', 'BatchEnd', 'Take',
        'Work')
MODELS = {
    'quick': [('MC_Hier', 'MC_Hier_q2.cfg', 900),
              ('Ddmin', 'MC_Ddmin_par.cfg', 900, SEQ),
              ('Ddmin', 'MC_Ddmin_seq.cfg', 900, PARA)],
    'thorough': [('MC_Hier', 'MC_Hier_q2.cfg', 900),
                 ('MC_Hier', 'MC_Hier_t3.cfg', 3000),
                 ('Ddmin', 'MC_Ddmin_par3.cfg', 3000, SEQ),
                 ('Ddmin', 'MC_Ddmin_seq.cfg', 900, PARA)],
}
CAP = {'quick': int(os.environ.get('VERIF_C03_CAP', '70')),
       'thorough': 900}      # explored inputs per seed
NRUNS = {'quick': 18, 'thorough': 200}
# seeds explored deeper also in the quick tier (cycles of length 2-3 that
# only close after the frontier of the default cap)
DEEP = {'eq_term': 400, 'define_nullary': 250, 'eq_nested_self': 400}

CYCLE_SEEDS = {
    'eq_const': '(declare-const x Int)\n(assert (= x 0))\n',
    'eq_var': '(declare-const x Int)\n(declare-const y Int)\n'
              '(assert (= x y))\n(assert (> y 1))\n',
    'eq_term': '(declare-const x Int)\n(declare-const y Int)\n'
               '(assert (= x (+ y 1)))\n(assert (> x 0))\n',
    # a nullary defined function next to the variable it is defined by
    'define_nullary': '(declare-const x Int)\n(define-fun y () Int x)\n'
                      '(assert (> x 0))\n(assert (< y 5))\n',
    # a variable equal to a term that mentions it two levels down
    'eq_nested_self': '(declare-const x Int)\n'
                      '(assert (= x (- (abs x))))\n',
    # a chain nested in the first operand over a term of unknown sort: every
    # proposal must still be delivered in time bounded by the input size
    'deep_arith': '(declare-const x Int)\n(declare-fun f (Int) Int)\n'
                  '(assert (> (+ (+ (+ (+ (+ (+ (+ (+ (+ (+ (+ (+ (+ (+ (+ (+ (+ (+ (+ (+ (+ (+ (f x) 1) 1) 1) 1) 1) 1) 1) 1) 1) 1) 1) 1) 1) 1) 1) 1) 1) 1) 1) 1) 1) 1) 0))\n',
    'inline_self': '(declare-const a Int)\n'
                   '(define-fun f ((a Int)) Int (+ a 1))\n'
                   '(assert (> (f (+ a 1)) (f a)))\n',
    'let_nest': '(declare-const b Int)\n'
                '(assert (let ((x (+ b 1))) (let ((y (+ x 1))) (> y x))))\n',
    'let_self': '(declare-const x Int)\n'
                '(assert (let ((x (+ x 1))) (> x 0)))\n',
    'neg': '(declare-const p Bool)\n(declare-const q Bool)\n'
           '(assert (not (not (and p (not (or q p))))))\n',
    'bv_const': '(declare-const v (_ BitVec 4))\n'
                '(assert (= (bvadd v #b0001) (bvnot (_ bv3 4))))\n'
                '(assert (= ((_ zero_extend 4) v) #x0f))\n',
    'bv_ext': '(declare-const w (_ BitVec 4))\n'
              '(assert (= ((_ extract 1 0) ((_ zero_extend 2) w)) #b01))\n',
    'long_names': '(declare-const alongsymbolname Bool)\n'
                  '(declare-const |quoted| Bool)\n'
                  '(assert (or alongsymbolname |quoted|))\n',
    'string': '(declare-const s String)\n(assert (= s "ab""c d"))\n'
              '(assert (str.contains s "b"))\n',
    'arith': '(declare-const r Int)\n(declare-const t Int)\n'
             '(assert (<= r t (+ r 1)))\n(assert (not (< r 0)))\n',
    'impl_xor': '(declare-const p Bool)\n(declare-const q Bool)\n'
                '(assert (=> p q))\n(assert (xor p q))\n(assert (= p false))\n',
    'dt': '(declare-datatype P ((mk (fst Int))))\n(declare-const d P)\n'
          '(assert (= (fst (mk 1)) (fst d)))\n',
    # qualified identifiers: a default constant that is not a leaf
    'set_empty': '(declare-const s (Set Int))\n'
                 '(assert (= s (as emptyset (Set Int))))\n',
    'as_nil': '(declare-datatype L ((nil) (cons (hd Int) (tl L))))\n'
              '(declare-const l L)\n'
              '(assert (= l (cons 1 (as nil L))))\n',
    'array_const': '(declare-const m (Array Int Int))\n'
                   '(assert (= (select (store m 0 1) 0) (select m 1)))\n',
    'fp_round': '(declare-const f (_ FloatingPoint 5 11))\n'
                '(assert (fp.eq (fp.add RNE f f) (fp.neg f)))\n',
    'sort_children': '(declare-const x Int)\n'
                     '(assert (= (+ (* x x) x) (+ x (* x x))))\n',
    # a defined function whose body is a call of itself with its own
    # parameters (an intermediate input of a reduction): inlining an
    # application yields the application
    'define_self_call': '(declare-fun f (Int) Int)\n'
                        '(define-fun f ((a Int)) Int (f a))\n'
                        '(declare-const x Int)\n(assert (> (f x) 0))\n',
    'define_self_nullary': '(define-fun f () Int f)\n'
                           '(declare-const x Int)\n(assert (> (+ f x) 0))\n',
    # a let binder that shadows a declared symbol
    'let_shadows_declared': '(declare-const x Int)\n(declare-const z Int)\n'
                            '(assert (let ((z x)) (> z x)))\n',
    'let_shadows_declared_sort': '(declare-const x Int)\n'
                                 '(declare-const z Bool)\n'
                                 '(assert (let ((z (+ x 1))) (> z x)))\n'
                                 '(assert z)\n',
}


def explore(mods, rep, name, text, cap, hangs):
    """BFS over the real proposal relation from one seed.  Returns
    (nodes: list of token tuples, edges: dict i -> {j: mutator},
     texts: list of rendered texts)."""
    nodeio = mods['nodeio']
    muts = P.all_mutators(mods)
    index = {}
    toks_list, texts, edges = [], [], {}

    def add(exprs_text, toks):
        k = tuple(toks)
        if k not in index:
            index[k] = len(toks_list)
            toks_list.append(k)
            texts.append(exprs_text)
        return index[k]

    exprs0 = list(nodeio.parse_smtlib(text))
    add(nodeio.write_smtlib_to_str(exprs0), P.toks_of(exprs0))
    expanded = set()

    def expand(i):
        """All proposals of input i as edges; False after three hangs."""
        expanded.add(i)
        try:
            exprs = list(nodeio.parse_smtlib(texts[i]))
        except Exception:  # noqa: C04/C08's business
            return True
        n_nodes = mods['nodes'].count_nodes(exprs)
        nhang = 0
        for p in P.enumerate_proposals(mods, exprs, muts, limit_s=5.0):
            rep.count()
            if p['error'] == 'timeout' or p['dt'] > max(2.0, 5e-5 * n_nodes**2):
                hangs.append((name, p['mut'], texts[i], str(p['node'])[:200],
                              p['dt']))
                nhang += 1
                if nhang >= 3:
                    # reported; do not pay the time limit for every further
                    # node of this seed
                    return False
                continue
            if p['error']:
                continue
            res, err = P.apply(mods, exprs, p['simp'])
            if err == 'timeout':
                hangs.append((name, p['mut'] + '/apply', texts[i],
                              str(p['node'])[:200], 5.0))
                continue
            if err or res is None:
                continue
            try:
                rt = nodeio.write_smtlib_to_str(res)
                tk = P.toks_of(res)
            except Exception:  # noqa: C15's business
                continue
            j = add(rt, tk)
            edges.setdefault(i, {}).setdefault(j, p['mut'])
        return True

    frontier = 0
    while frontier < len(toks_list) and frontier < cap:
        i = frontier
        frontier += 1
        if not expand(i):
            return toks_list, edges, texts
    # Shrink probes: a cycle through a growing step (variable elimination,
    # inlining, let substitution) closes through several shrinking steps, far
    # beyond the breadth-first frontier.  From the result of every growing
    # proposal found so far, follow only proposals that shrink the input and
    # do not fall below the size the growing step started from, best first
    # by the distance (token multisets) to the input the step started from.
    grow = [(u, v) for u in sorted(edges) for v in sorted(edges[u])
            if len(toks_list[v]) > len(toks_list[u])][:12]
    import collections
    import heapq
    for u, v in grow:
        floor = len(toks_list[u])
        target = collections.Counter(toks_list[u])

        def dist(x):
            c = collections.Counter(toks_list[x])
            return sum(((c - target) + (target - c)).values())

        heap, seen, budget = [(dist(v), v)], {v}, 60
        while heap and budget > 0:
            _, x = heapq.heappop(heap)
            if x == u:
                break
            if x not in expanded:
                budget -= 1
                if not expand(x):
                    return toks_list, edges, texts
            for y in sorted(edges.get(x, {})):
                if y not in seen and floor <= len(toks_list[y]) < len(
                        toks_list[x]):
                    seen.add(y)
                    heapq.heappush(heap, (dist(y), y))
    return toks_list, edges, texts


def sccs(n, edges):
    """Tarjan, iterative.  Returns comp id per node (ids in reverse
    topological order: an edge u->v between components has comp[u] > comp[v])."""
    idx = [None] * n
    low = [0] * n
    on = [False] * n
    comp = [None] * n
    st = []
    counter = [0]
    ncomp = [0]
    for root in range(n):
        if idx[root] is not None:
            continue
        work = [(root, iter(edges.get(root, {})))]
        idx[root] = low[root] = counter[0]
        counter[0] += 1
        st.append(root)
        on[root] = True
        while work:
            v, it = work[-1]
            adv = False
            for w in it:
                if w >= n:
                    continue
                if idx[w] is None:
                    idx[w] = low[w] = counter[0]
                    counter[0] += 1
                    st.append(w)
                    on[w] = True
                    work.append((w, iter(edges.get(w, {}))))
                    adv = True
                    break
                elif on[w]:
                    low[v] = min(low[v], idx[w])
            if adv:
                continue
            work.pop()
            if work:
                u = work[-1][0]
                low[u] = min(low[u], low[v])
            if low[v] == idx[v]:
                while True:
                    w = st.pop()
                    on[w] = False
                    comp[w] = ncomp[0]
                    if w == v:
                        break
                ncomp[0] += 1
    return comp


def shortest_cycle(members, edges):
    """Shortest cycle inside one SCC: list of nodes (first = last omitted)."""
    best = None
    ms = set(members)
    for s in members:
        prev = {s: None}
        q = [s]
        found = None
        while q and found is None:
            nq = []
            for u in q:
                for v in edges.get(u, {}):
                    if v == s:
                        found = u
                        break
                    if v in ms and v not in prev:
                        prev[v] = u
                        nq.append(v)
                if found is not None:
                    break
            q = nq
        if found is not None:
            path = [found]
            while prev[path[-1]] is not None:
                path.append(prev[path[-1]])
            path.reverse()
            if best is None or len(path) < len(best):
                best = path
            if len(best) <= 2:
                break
    return best


def write_graph(path, n, edges, rank):
    with open(path, 'w') as f:
        f.write('---- MODULE RewriteGraph ----\n')
        f.write(f'N == {n}\n')
        f.write('Succ == <<' + ', '.join(
            '{' + ', '.join(str(j + 1) for j in sorted(edges.get(i, {}))
                            if j < n) + '}' for i in range(n)) + '>>\n')
        f.write('Rank == <<' + ', '.join(str(rank[i]) for i in range(n)) +
                '>>\n====\n')


def confirm_cycle(cycle_toks, first_text):
    """Run ddSMT (hierarchical) against the command that accepts exactly the
    members of the cycle; returns (looped, nwrites)."""
    wd = common.subscratch('cycle-' + str(time.time_ns()))
    spec = {'mode': 'member', 'members': [list(t) for t in cycle_toks]}
    r = runs.run_ddsmt(wd, first_text, spec,
                       ['--strategy', 'hierarchical', '-j', '1'], timeout=25)
    nw = sum(1 for e in r.events if e['ev'] == 'write')
    return r.timed_out, nw


def main():
    a = common.std_args()
    ddsmt_env.load()
    mods = ddsmt_env.mods()
    rep = common.Report('C03', 'model_checking', a.tier)
    rep.cov['rule'] = (
        'model: liveness of Hier.tla / Ddmin.tla; proposal graph: BFS closure '
        'of the real proposal relation around the seeds (bounded number of '
        'explored inputs per seed), one evaluation per proposal; TLC checks '
        'Decreasing/Changes on every recorded edge; non-trivial = distinct '
        'inputs of the recorded graph; runs: adversarial commands')
    rep.assumptions += [
        'the closure is bounded (short chains around many seeds), not the '
        'full closure; a global ranking for all mutators is not attempted',
        'time bound per mutator call: max(2 s, 50 us * n^2) for an input of '
        'n nodes',
    ]
    seeds_ = dict(CYCLE_SEEDS)
    if a.replay:
        with open(a.replay) as f:
            rp = json.load(f)['replay']
        seeds_ = {'replay': rp['seed_text']}
    else:
        S.model_check(rep, MODELS[a.tier])
    hangs = []
    confirmed = set()
    for name, text in sorted(seeds_.items()):
        toks_list, edges, texts = explore(
            mods, rep, name, text, max(CAP[a.tier], DEEP.get(name, 0)), hangs)
        n = len(toks_list)
        for t in toks_list:
            rep.nontrivial(common.digest(list(t)))
        comp = sccs(n, edges)
        gpath = os.path.join(common.subscratch('graphs'), 'RewriteGraph.tla')
        write_graph(gpath, n, edges, comp)
        res = common.run_tlc('Rewrite', 'Rewrite.cfg', files=[gpath],
                             name='rewrite-' + name, timeout=900)
        rep.add_tlc(res, 'Rewrite:' + name)
        os.remove(gpath)
        if not res.violated:
            continue
        # TLC found an edge that does not decrease the rank: report every
        # cycle (strongly connected component with an internal edge)
        groups = {}
        for i, c in enumerate(comp):
            groups.setdefault(c, []).append(i)
        for c, members in groups.items():
            internal = any(j in edges.get(i, {}) for i in members
                           for j in members)
            if not internal:
                continue
            # one cycle per component; a cycle that is a recorded finding
            # must not hide another one of the same component: cut it and
            # look again
            local = {u: dict(edges.get(u, {})) for u in members}
            for _round in range(12):
                cyc = shortest_cycle(members, local)
                if not cyc:
                    break
                chain = []
                for k, u in enumerate(cyc):
                    v = cyc[(k + 1) % len(cyc)]
                    chain.append({'mutator': local[u][v], 'before': texts[u],
                                  'after': texts[v],
                                  'delta': len(toks_list[v]) - len(toks_list[u])})
                muts = '+'.join(sorted({x['mutator'] for x in chain}))
                kind = 'no-op' if len(cyc) == 1 else 'cycle'
                # the cycle as a sequence of steps (mutator and whether the
                # input grows, shrinks or keeps its size), rotated to a
                # canonical start: this is what identifies a finding
                steps = [x['mutator'] + ('+' if x['delta'] > 0 else
                                         '-' if x['delta'] < 0 else '=')
                         for x in chain]
                rots = [steps[k:] + steps[:k] for k in range(len(steps))]
                sig = (f'{kind}:' + '>'.join(min(rots))) if kind == 'cycle' \
                    else f'{kind}:{muts}'
                looped, nw = (None, None)
                if (a.tier == 'thorough' or a.replay) and \
                        not rep.is_known(sig) and sig not in confirmed \
                        and len(confirmed) < 6:
                    # (one end-to-end confirmation per kind of cycle: a
                    # no-op of one mutator shows on thousands of inputs)
                    confirmed.add(sig)
                    looped, nw = confirm_cycle([toks_list[u] for u in cyc],
                                               texts[cyc[0]])
                rep.violation(
                    sig,
                    f'the mutators propose a {kind} around seed {name}: ' +
                    ' -> '.join(f'[{x["mutator"]}] {x["after"]!r}'
                                for x in chain)[:700] +
                    (f'; ddSMT against the command accepting exactly these '
                     f'inputs: looped={looped}, {nw} adoptions'
                     if looped is not None else ''),
                    {'seed_text': text, 'chain': chain})
                if not rep.is_known(sig):
                    break
                u = cyc[0]
                v = cyc[1 % len(cyc)]
                local[u].pop(v, None)
    for name, mut, text, node, dt in hangs:
        rep.violation(
            f'mutator-hang:{mut}:seed={name}',
            f'{mut} needed {dt:.1f}s on node {node!r} of {text!r}',
            {'seed_text': text, 'mutator': mut})
    if not a.replay:
        # control: real runs against adversarial commands terminate and never
        # revisit an input.  The configurations are a FIXED list (not seeded):
        # the cycles they can expose are those of the proposal relation and
        # are identified by the mutators on the cycle.
        r = random.Random(20261004)
        cfgs = corpus.configs(r, NRUNS[a.tier], outmodes=((), ))
        for text, spec, opts, meta in cfgs:
            if r.random() < 0.5:
                spec.update(corpus.gen_pred(r, text, 'hash'))
        # parallel ddmin: two removable subsets of one granularity level, the
        # check of the first one slow, so that the second is taken first and
        # the first one's success arrives late
        par = ('(assert k0)\n(assert p)\n(assert k2)\n(assert q)\n'
               '(assert k4)\n(assert k5)\n')
        for j in (2, 3):
            cfgs.append((par, {'mode': 'contains',
                               'markers': ['k0', 'k2', 'k4', 'k5'],
                               'slow_without': {'token': 'p', 'ms': 1500}},
                         ['--strategy', 'ddmin', '-j', str(j), '--disable-all',
                          '--erase-node'],
                         {'strategy': 'ddmin', 'jobs': j, 'n': 'late-%d' % j}))
        # every test ends: candidates on which the command is a wrapper
        # whose blocked child inherited the pipes run into the time limit;
        # killing the command does not close the pipes
        blk = ('(set-logic QF_LIA)\n(declare-const a Int)\n'
               '(declare-const b Int)\n(assert (= a b))\n'
               '(assert (> a 0))\n(check-sat)\n')
        for st, j in (('hierarchical', 1), ('ddmin', 1), ('hybrid', 2)):
            cfgs.append((blk, {'mode': 'contains',
                               'markers': ['set-logic', '='],
                               'near': {'pred': {'mode': 'contains',
                                                 'markers': ['=']},
                                        'beh': {'exit': 0, 'out': '',
                                                'err': '',
                                                'block_with_child_s': 40},
                                        'acceptable': False}},
                         ['--strategy', st, '-j', str(j), '--timeout', '0.5',
                          '--disable-all', '--erase-node'],
                         {'strategy': st, 'jobs': j, 'n': 'blocked-%s' % st}))
        items = S.execute(cfgs, label='c03', timeout=runs.time_limit(120))
        names = {str(m): type(m).__name__ for m in P.all_mutators(mods)}
        import tracecheck
        hs = [it for it in items if it.hier is not None]
        ds = [it for it in items if it.ddmin is not None]
        hv = tracecheck.validate('TraceHier', 'TraceHier_c03.cfg',
                                 [it.hier for it in hs])
        dv = tracecheck.validate('TraceDdmin', 'TraceDdmin_c03.cfg',
                                 [it.ddmin for it in ds])
        rep.cov['traces_validated_against_impl'] += len(hs) + len(ds)
        flagged = set()
        for its, vs in ((hs, hv), (ds, dv)):
            for it, v in zip(its, vs):
                if v[0] == 'invariant' and 'NoRevisit' in v[1]:
                    flagged.add(id(it))
        for it, v in zip(ds, dv):
            # the restart index of a parallel round grows strictly
            if v[0] == 'reject' and v[3] == \
                    'restart-index-is-not-the-adopted-subset-plus-one':
                ev = it.ddmin['events'][v[1] - 1]
                rep.violation(
                    'trace-ddmin:' + v[3],
                    f'ddmin trace rejected by TLC at event {v[1]}: the '
                    f'generator of a parallel round restarts at index '
                    f'{ev.get("index")}, not right after the adopted subset '
                    f'(nothing bounds the number of restarts); options '
                    f'{it.opts}', S.replay_obj(it))
        for it in items:
            rep.count()
            chain = S.adoption_chain(it, names)
            rv = S.revisits(chain)
            if id(it) in flagged and not rv:
                raise common.MachineryError(
                    'TLC reports a revisit the harness cannot locate')
            for i, j, muts in rv[:1]:
                rep.violation(
                    f'run-cycle:{"+".join(muts)}',
                    f'a run adopted the same input again after {j - i} '
                    f'steps through {muts}: {" ".join(chain[j][0])[:200]!r}; '
                    f'options {it.opts}', S.replay_obj(it))
            if it.run.timed_out and not rv:
                last = sorted({m or '?' for _, m in chain[-6:]})
                rep.violation(
                    f'run-does-not-terminate:{"+".join(last)}',
                    f'ddSMT did not finish within the time limit on a <= 40 node '
                    f'input (last adoptions by {last}); options {it.opts}',
                    S.replay_obj(it))
        rep.cov['runs'] = len(items)
        S.cleanup(items)
    rep.sample({'seed': 'eq_const', 'text': CYCLE_SEEDS['eq_const']})
    return rep.finish()


if __name__ == '__main__':
    common.main_wrapper(main)
