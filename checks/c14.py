"""C14 - exactly the enabled mutators are used.

Model: specs/Options.tla (ordered toggles, --disable-all, automatic theory
detection) - model-checked on an abstract registry for its own algebra
(MC_Options) - and OptionsTrace.tla, with which TLC judges what the real code
built: for every option sequence (all single options, all ordered pairs in the
thorough tier / a seeded sample in the quick tier, seeded longer sequences) x
declaration profile, the options are parsed from a real argv, an input with
exactly the profile's declarations is parsed, auto_detect_theories,
get_passes() and ddmin_passes() run, and the classes of the returned mutator
instances are recorded.  The registry is read from get_all_mutators() at run
time.
"""
import itertools
import json
import multiprocessing
import os
import random
import re
import sys

sys.path.insert(0, os.path.join(os.path.dirname(os.path.abspath(__file__)),
                                '..', 'lib'))
import common  # noqa: E402
import ddsmt_env  # noqa: E402

DECLS = {
    'arithmetic': ['(declare-const i Int)', '(declare-fun j () Real)',
                   '(define-fun k () Int 1)', '(define-sort S () Int)'],
    'bv': ['(declare-const b (_ BitVec 8))', '(declare-fun c () (_ BitVec 1))',
           '(define-fun d () (_ BitVec 4) #x0)',
           '(define-sort T () (_ BitVec 3))'],
    'datatypes': ['(declare-datatypes ((L 0)) (((nil))))',
                  '(declare-datatype P ((mk)))'],
    'fp': ['(declare-const f (_ FloatingPoint 8 24))',
           '(declare-const r RoundingMode)', '(declare-fun g () Float32)',
           '(define-sort F () Float64)'],
    'strings': ['(declare-const s String)', '(declare-fun t () String)',
                '(declare-const q (Seq Bool))', '(define-sort U () String)'],
}


NESTED_SORT = {'arithmetic': 'Real', 'bv': '(_ BitVec 8)',
               'fp': '(_ FloatingPoint 5 11)', 'strings': 'String'}


def registry():
    from ddsmt import mutators
    muts, groups, optmap = [], [], {}
    for g, (module, names) in mutators.get_all_mutators().items():
        groups.append({'name': g, 'rel': hasattr(module, 'is_relevant')})
        for cls, opt in names.items():
            muts.append({'cls': cls, 'group': g})
            optmap[cls] = opt
    return {'muts': muts, 'groups': groups}, optmap


def to_argv(seq, optmap):
    a = []
    for o in seq:
        if o[0] == 'mut':
            a.append(('--' if o[2] else '--no-') + optmap[o[1]])
        elif o[0] == 'group':
            a.append(('--' if o[2] else '--no-') + o[1])
        else:
            a.append('--disable-all')
    return a


def run_cases(args):
    cases, optmap = args
    from ddsmt import mutators, nodeio, strategy_hierarchical as sh
    from ddsmt import strategy_ddmin as sd
    import logging
    logging.disable(logging.CRITICAL)
    out = []
    for c in cases:
        argv = to_argv(c['seq'], optmap) + ['in.smt2', 'out.smt2', 'cmd']
        try:
            ddsmt_env.reset_options(argv)
            exprs = list(nodeio.parse_smtlib(c['input']))
            mutators.auto_detect_theories(exprs)
            hp = sh.get_passes()
            dp = sd.ddmin_passes()

            def names(p):
                if isinstance(p, tuple):
                    p = p[0]
                return [type(m).__name__ for m in p]

            hier = [names(p) for p in hp]
            c2 = dict(c)
            c2['hier_all'] = sorted({n for p in hier for n in p})
            c2['hier_last'] = sorted(set(hier[-1]))
            c2['ddmin'] = sorted({n for p in dp for n in names(p)})
            c2['argv'] = argv[:-3]
            out.append(c2)
        except BaseException as e:  # noqa
            c2 = dict(c)
            c2['error'] = repr(e)
            c2['argv'] = argv[:-3]
            out.append(c2)
    return out


DDMIN_HISTORIES = [
    ('(declare-const a Bool)\n(declare-const b Bool)\n'
     '(assert (=> (not a) b))\n(check-sat)\n',
     ['--bool-implications', '--bool-double-negations']),
    ('(declare-const a Bool)\n(declare-const b Bool)\n'
     '(assert (not (and (not a) b)))\n(check-sat)\n',
     ['--bool-de-morgan', '--bool-double-negations']),
    ('(declare-const a Bool)\n(declare-const b Bool)\n'
     '(assert (=> (not a) (not (not b))))\n(check-sat)\n',
     ['--bool-implications', '--bool-double-negations', '--erase-node']),
]


def ddmin_turns(rep, optmap):
    """Runs with strategy ddmin / hybrid over histories in which a mutator
    has nothing to do on the original input.  A mutator of the ddmin pass
    lists that is never applied is a violation if the input at one of its
    turns (what its successor in the pass list was given, what its
    predecessor returned) has a node it accepts."""
    import runs
    from concurrent.futures import ThreadPoolExecutor
    mods = ddsmt_env.mods()
    cfgs = []
    for text, mo in DDMIN_HISTORIES:
        for st, j in (('ddmin', 1), ('ddmin', 2), ('hybrid', 1)):
            cfgs.append((text, ['--strategy', st, '-j', str(j),
                                '--disable-all'] + mo))

    def run(kc):
        k, (text, opts) = kc
        wd = common.subscratch(f'c14-turn{k}')
        return runs.run_ddsmt(
            wd, text, {'mode': 'contains',
                       'markers': ['assert', 'a', 'b', 'check-sat']},
            opts, timeout=300)

    with ThreadPoolExecutor(6) as ex:
        res = list(ex.map(run, enumerate(cfgs)))
    n = 0
    for (text, opts), rr in zip(cfgs, res):
        rep.count()
        dp = [e for e in rr.events if e['ev'] == 'passes'
              and e['strat'] == 'ddmin']
        if rr.status != 0 or not dp:
            continue
        n += 1
        stages = dp[0]['passes']
        applies = []
        for e in rr.events:
            if e['ev'] == 'apply_begin':
                applies.append({'mut': e['mut'], 'in': e.get('toks')})
            elif e['ev'] == 'apply_end' and applies:
                applies[-1]['out'] = e.get('toks')
        applied = {a['mut'] for a in applies}
        for stage in stages:
            for pos, m in enumerate(stage):
                if m in applied:
                    continue
                nxt = next((x for x in stage[pos + 1:] if x in applied), None)
                prv = next((x for x in reversed(stage[:pos])
                            if x in applied), None)
                turns = [a['in'] for a in applies if a['mut'] == nxt] + \
                        [a.get('out') for a in applies if a['mut'] == prv]
                hit = None
                for tk in turns:
                    if tk and accepts_some_node(mods, m, tk):
                        hit = tk
                        break
                if hit:
                    rep.violation(
                        f'ddmin-mutator-never-applied:{m}:{" ".join(opts)}',
                        f'{m} is in the ddmin pass list {stage} but was never '
                        f'applied, although the input at its turn '
                        f'{" ".join(hit)!r} has a node it accepts; options '
                        f'{opts}', {'input': text, 'opts': opts})
    return n


def accepts_some_node(mods, clsname, toks):
    nodeio, nodes, smtlib = mods['nodeio'], mods['nodes'], mods['smtlib']
    try:
        exprs = list(nodeio.parse_smtlib(' '.join(toks)))
        smtlib.collect_information(exprs)
        inst = None
        for tname, (module, names) in \
                mods['mutators'].get_all_mutators().items():
            if clsname in names:
                inst = getattr(module, clsname)()
        if inst is None:
            return False
        for node in nodes.dfs(exprs):
            try:
                if not hasattr(inst, 'filter') or inst.filter(node):
                    if hasattr(inst, 'mutations') and \
                            list(inst.mutations(node)):
                        return True
            except Exception:  # noqa
                continue
    except Exception:  # noqa
        return False
    return False


def main():
    a = common.std_args()
    ddsmt_env.load()
    rep = common.Report('C14', 'model_checking', a.tier)
    rep.cov['rule'] = (
        'option sequences: every single option; ordered pairs (quick: a '
        'seeded sample of 6000, thorough: all); seeded sequences of length '
        '3-6; each with a declaration profile (single options and pairs with '
        'several profiles); one case = (sequence, profile), judged by TLC '
        '(OptionsTrace.tla); non-trivial = the enabled set differs from the '
        'default; distinct by (sequence, profile)')
    rep.assumptions += [
        'argparse prefix abbreviations are not exercised',
        'a theory is declared through declare-const / nullary declare-fun / '
        'define-fun / define-sort of one of its sorts, or inside a compound '
        'sort of the declared symbol (array index / element); argument sorts '
        'of declared functions are not used: whether they "declare something '
        'of the theory" is not fixed by the property',
    ]
    res = common.run_tlc('MC_Options', 'MC_Options.cfg', timeout=900)
    if res.violated:
        raise common.MachineryError('Options.tla violates ' +
                                    str(res.violated))
    rep.add_tlc(res, 'MC_Options.cfg')
    reg, optmap = registry()
    r = random.Random(common.seed() + 14)
    opts = [['mut', m['cls'], v] for m in reg['muts'] for v in (True, False)]
    opts += [['group', g['name'], v] for g in reg['groups']
             for v in (True, False)]
    opts += [['all', '', False]]
    relgroups = [g['name'] for g in reg['groups'] if g['rel']]
    profiles = [list(p) for k in range(len(relgroups) + 1)
                for p in itertools.combinations(relgroups, k)]

    def input_for(profile, k):
        lines = ['(set-logic ALL)', '(declare-const plain Bool)']
        nest = [g for g in profile if g in NESTED_SORT]
        rest = [g for g in profile if g not in NESTED_SORT]
        if k % 3 == 2 and nest:
            # theories declared only inside compound sorts, two theories per
            # declaration where possible (array index / element)
            while len(nest) >= 2:
                g1, g2 = nest.pop(), nest.pop()
                if k % 2:
                    lines.append(f'(declare-const a{len(lines)} (Array '
                                 f'{NESTED_SORT[g1]} {NESTED_SORT[g2]}))')
                else:
                    lines.append(f'(declare-fun h{len(lines)} () (Array '
                                 f'{NESTED_SORT[g2]} {NESTED_SORT[g1]}))')
            for g in nest:
                lines.append(f'(declare-const a{len(lines)} (Array Bool '
                             f'{NESTED_SORT[g]}))')
        else:
            rest = list(profile)
        for g in rest:
            ds = DECLS[g]
            lines.append(ds[k % len(ds)])
        # where the declarations stand: before the first assertion, after it
        # (an input is a sequence of commands, declarations may follow
        # assertions), or after a first check-sat
        if k % 5 == 1:
            lines[2:2] = ['(assert plain)']
        elif k % 5 == 3:
            lines[2:2] = ['(assert plain)', '(check-sat)']
        lines.append('(assert plain)')
        return '\n'.join(lines) + '\n'

    seqs = [[o] for o in opts]
    pairs = [[x, y] for x in opts for y in opts]
    if a.tier == 'quick':
        pairs = r.sample(pairs, 6000)
    seqs += pairs
    for _ in range(1500 if a.tier == 'quick' else 20000):
        seqs.append([r.choice(opts) for _ in range(r.randint(3, 6))])
    cases = []
    if a.replay:
        with open(a.replay) as f:
            rp = json.load(f)['replay']
        cases = [{'cid': 0, 'seq': rp['seq'], 'decl': rp['decl'],
                  'input': rp['input']}]
    else:
        for k, s in enumerate(seqs):
            if len(s) == 1:
                ps = profiles
            else:
                ps = [profiles[(k * 7 + j * 13) % len(profiles)]
                      for j in range(2)]
            for p in ps:
                cases.append({'cid': len(cases), 'seq': s, 'decl': p,
                              'input': input_for(p, k)})
    chunks = [cases[i::24] for i in range(24)]
    with multiprocessing.get_context('fork').Pool(12) as pool:
        done = pool.map(run_cases, [(c, optmap) for c in chunks])
    byid = {}
    for ch in done:
        for c in ch:
            byid[c['cid']] = c
    default = sorted(m['cls'] for m in reg['muts'])
    tl = []
    for cid in sorted(byid):
        c = byid[cid]
        rep.count()
        if 'error' in c:
            rep.violation(
                'exception:' + ' '.join(c['argv']),
                f'building the passes for {c["argv"]} raised {c["error"]}',
                {'seq': c['seq'], 'decl': c['decl'], 'input': c['input']})
            continue
        if c['hier_last'] != default:
            rep.nontrivial(common.digest([c['seq'], c['decl']]))
        tl.append({k: c[k] for k in ('cid', 'seq', 'decl', 'hier_all',
                                     'hier_last', 'ddmin')})
    # ---- real hybrid runs: the passes of BOTH phases of one process --------
    # (the option namespace and the detection result are shared state: what
    # the hierarchical phase schedules after the ddmin phase has reduced the
    # input must still be the enabled set of the ORIGINAL input and options)
    import runs
    from concurrent.futures import ThreadPoolExecutor
    rseqs = [[], [['mut', 'BinaryReduction', True]],
             [['group', 'bv', False], ['mut', 'BVReflexiveNand', True]],
             [['all', '', False], ['group', 'core', True]],
             [['mut', 'EraseNode', False]], [['group', 'smtlib', False]]]
    rprofiles = [['bv'], ['arithmetic', 'bv'], [], ['strings', 'fp']]
    rcases = []
    for k, sq in enumerate(rseqs):
        for pr in (rprofiles if a.tier == 'thorough' else
                   [rprofiles[k % len(rprofiles)],
                    rprofiles[(k + 1) % len(rprofiles)]]):
            lines = ['(set-logic ALL)', '(declare-const plain Bool)']
            for g in pr:
                lines.append(DECLS[g][0])     # unused: ddmin erases it
            lines += ['(assert (= (bvnand #x0f #x0f) #xf0))',
                      '(assert (or plain plain plain plain plain plain plain '
                      'plain plain))', '(check-sat)']
            rcases.append({'seq': sq, 'decl': pr,
                           'input': '\n'.join(lines) + '\n'})

    def real_run(kc):
        k, c = kc
        wd = common.subscratch(f'c14-run{k}')
        return runs.run_ddsmt(
            wd, c['input'], {'mode': 'contains', 'markers': ['bvnand', 'or']},
            ['--strategy', 'hybrid', '-j', '1'] + to_argv(c['seq'], optmap),
            timeout=300)

    with ThreadPoolExecutor(6) as ex:
        rres = list(ex.map(real_run, enumerate(rcases)))
    nreal = 0
    for c, rr in zip(rcases, rres):
        rep.count()
        ps = [e for e in rr.events if e['ev'] == 'passes']
        hp = [e for e in ps if e['strat'] == 'hier']
        dp = [e for e in ps if e['strat'] == 'ddmin']
        if rr.status != 0 or not hp or not dp:
            continue   # C04's business
        nreal += 1
        cid = len(byid)
        c2 = dict(c, cid=cid, argv=to_argv(c['seq'], optmap) + ['(hybrid run)'],
                  hier_all=sorted({n for p in hp[-1]['passes'] for n in p}),
                  hier_last=sorted(set(hp[-1]['passes'][-1])),
                  ddmin=sorted({n for p in dp[0]['passes'] for n in p}))
        byid[cid] = c2
        tl.append({k2: c2[k2] for k2 in ('cid', 'seq', 'decl', 'hier_all',
                                         'hier_last', 'ddmin')})
    rep.cov['real_hybrid_runs'] = nreal
    # every mutator of the ddmin pass lists gets its turn: a history in which
    # a mutator only applies after another one has rewritten the input
    nd = ddmin_turns(rep, optmap)
    rep.cov['ddmin_runs_judged_for_turns'] = nd
    # TLC judges
    import conform  # noqa
    path = os.path.join(common.subscratch('c14'), 'cases.json')
    B = 20000
    fails = {}
    for b in range(0, len(tl), B):
        with open(path, 'w') as f:
            json.dump({'reg': reg, 'cases': tl[b:b + B]}, f)
        res = common.run_tlc('OptionsTrace', 'OptionsTrace.cfg', workers=1,
                             coverage=False, env={'CASES': path},
                             timeout=3000, name=f'optionstrace{b}')
        if res.violated or res.distinct != len(tl[b:b + B]) + 1:
            raise common.MachineryError('OptionsTrace failed: ' +
                                        res.output[-2000:])
        rep.add_tlc(res, f'OptionsTrace:{b}')
        for m in re.finditer(r'<<\s*"FAIL",\s*(\d+),\s*"([\w-]+)"\s*>>',
                             res.output):
            fails[int(m.group(1))] = m.group(2)
    for cid, clause in fails.items():
        c = byid[cid]
        rep.violation(
            f'{clause}:{" ".join(c["argv"])}:decl={",".join(c["decl"])}',
            f'{clause}: options {c["argv"]}, input declares {c["decl"]}; '
            f'last hierarchical pass {c["hier_last"]}; ddmin {c["ddmin"]}',
            {'seq': c['seq'], 'decl': c['decl'], 'input': c['input']})
    rep.cov['traces_validated_against_impl'] = len(tl)
    for c in tl[:1] + tl[200:202]:
        rep.sample({'options': byid[c['cid']]['argv'], 'declares': c['decl'],
                    'n_enabled_last_pass': len(c['hier_last'])})
    return rep.finish()


if __name__ == '__main__':
    common.main_wrapper(main)
