"""C05 - accepted inputs form a chain; stale parallel results are never
adopted.

Model: Hier.tla and Ddmin.tla (Chain, NoStaleAdoption, FinalIsLast) checked by
TLC over all commands and all schedules of producer thread, workers, result
delivery and main loop.  Binding: free-running real executions (-j 2/4, real
pool, real pickling, seeded pseudo-random delays in the command, commands under
which several candidates of a sweep succeed) are recorded by the launcher and
validated by TLC against TraceHier.tla / TraceDdmin.tla, which replay them
through the model's own main-loop action bodies.
"""
import json
import os
import random
import sys

sys.path.insert(0, os.path.join(os.path.dirname(os.path.abspath(__file__)),
                                '..', 'lib'))
import common  # noqa: E402
import corpus  # noqa: E402
import stratcheck as S  # noqa: E402

SEQ = ('SeqStep', 'SeqEnd')
MODELS = {
    'quick': [('MC_Hier', 'MC_Hier_q2.cfg', 900),
              ('Ddmin', 'MC_Ddmin_par.cfg', 900, SEQ)],
    'thorough': [('MC_Hier', 'MC_Hier_q2.cfg', 900),
                 ('MC_Hier', 'MC_Hier_t3.cfg', 3000),
                 ('Ddmin', 'MC_Ddmin_par.cfg', 900, SEQ),
                 ('Ddmin', 'MC_Ddmin_par3.cfg', 3000, SEQ)],
}
NRUNS = {'quick': 40, 'thorough': 240}


def make_configs(r, n):
    cfgs = corpus.configs(r, n, jobs=(2, 4, 3), outmodes=((), ))
    # commands under which many candidates of one sweep succeed at once
    for i, (text, spec, opts, meta) in enumerate(cfgs):
        spec['delay_ms'] = r.choice([2, 6, 12])
        if i % 3 == 0:
            # the main loop is slow to act on a success: further checks
            # complete before the abort signal is raised
            meta.setdefault('env', {})['VERIF_MAIN_DELAY_MS'] = '200'
        if i % 2 == 1:
            # permissive command: most candidates of a sweep are accepted, so
            # several workers succeed before any of them sees the abort flag
            toks = corpus.atoms_of(text)
            keep = [t for t in ('check-sat', ) if t in toks] or toks[:1]
            spec.clear()
            spec.update({'mode': 'contains', 'markers': keep,
                         'delay_ms': r.choice([6, 10, 15]),
                         'delay_seed': r.randint(0, 10**6)})
            if meta['strategy'] == 'ddmin':
                opts[opts.index('--strategy') + 1] = r.choice(
                    ['hierarchical', 'hybrid'])
                meta['strategy'] = opts[opts.index('--strategy') + 1]
        if i % 4 == 2:
            # parallel ddmin with several successes per batch that complete
            # out of order: many top-level commands (more than 2 x jobs
            # subsets), a permissive command, widely varying check times
            na = r.choice([12, 15, 18])
            if i % 8 == 6:
                # all assertions must stay and hold single-digit constants:
                # many constant substitutions (7 -> 0) are accepted in the
                # parallel granularities, and they keep the size of the
                # input (and of its pickle) unchanged
                na = 12
                text = ('(set-logic QF_LIA)\n' +
                        ''.join(f'(declare-const x{k} Int)\n'
                                for k in range(4)) +
                        ''.join(f'(assert (> (+ x{k % 4} {2 + k % 8}) '
                                f'(* {3 + k % 7} x{(k + 1) % 4})))\n'
                                for k in range(na)) + '(check-sat)\n')
                spec.clear()
                spec.update({'mode': 'count', 'counts': {
                    '>': na, '+': na, '*': na, 'check-sat': 1}})
            else:
                text = ('(set-logic QF_LIA)\n' +
                        ''.join(f'(declare-const x{k} Int)\n'
                                for k in range(4)) +
                        ''.join(f'(assert (> x{k % 4} {k + 100}))\n'
                                for k in range(na)) + '(check-sat)\n')
                # every third assert must stay: coarse subsets fail, the
                # fine (parallel) granularities have many independent
                # successes
                off = r.randrange(3)
                keep = [str(100 + k) for k in range(na) if k % 3 == off]
                spec.clear()
                spec.update({'mode': 'contains',
                             'markers': ['check-sat'] + keep})
            spec.update({'delay_ms': r.choice([15, 25]),
                         'delay_seed': r.randint(0, 10**6)})
            st = r.choice(['ddmin', 'hybrid'])
            opts[opts.index('--strategy') + 1] = st
            meta['strategy'] = st
            cfgs[i] = (text, spec, opts, meta)
    # an input that is minimal in its commands but still carries its
    # comments: a top-level pass adopts candidates without lowering the
    # number of (non-leaf) expressions, and later passes rewrite the terms
    text = ('; produced by a fuzzer\n(set-logic QF_LIA)\n; declarations\n'
            '(declare-const a Int)\n(declare-const b Int)\n; the goal\n'
            '(assert (> (+ a (* 2 b)) (- b 7)))\n(check-sat)\n; end\n')
    for st, j in (('ddmin', 1), ('ddmin', 2), ('hybrid', 1), ('hybrid', 2)):
        cfgs.append((text, {'mode': 'count',
                            'counts': {'set-logic': 1, 'a': 1, 'b': 1,
                                       'declare-const': 2, '>': 1,
                                       'check-sat': 1},
                            'delay_ms': 3, 'delay_seed': r.randint(0, 10**6)},
                     ['--strategy', st, '-j', str(j)],
                     {'strategy': st, 'jobs': j, 'n': 'comments-%s-%d' % (st, j)}))
    # the generator of a parallel round is slow (the task-handler thread is
    # inside __next__ when the main thread adopts a success of the batch):
    # tasks that carry the new input while the abort signal of the very
    # adoption that created it is still raised
    for k, (st, j, na, gd) in enumerate((('ddmin', 2, 24, 25),
                                         ('ddmin', 3, 32, 15),
                                         ('hybrid', 2, 32, 40),
                                         ('ddmin', 4, 32, 25))):
        text = ('(set-logic QF_LIA)\n(declare-const x Int)\n' +
                ''.join(f'(assert (> x {i + 100}))\n' for i in range(na)) +
                '(check-sat)\n')
        keep = [str(100 + i) for i in range(na) if i % 4 == 0]
        cfgs.append((text, {'mode': 'contains',
                            'markers': ['check-sat'] + keep,
                            'delay_ms': 20, 'delay_seed': r.randint(0, 10**6)},
                     ['--strategy', st, '-j', str(j), '--disable-all',
                      '--erase-node'],
                     {'strategy': st, 'jobs': j, 'n': f'slowgen-{k}',
                      'env': {'VERIF_GEN_DELAY_MS': str(gd)}}))
    # a transient fault (ENOSPC) at the n-th low-level write of the output
    # renderer: ddSMT either stops (status 1, chain intact) or goes on - then
    # the chain must go on from what was written
    arith = ('(set-logic QF_LIA)\n(declare-const a Int)\n'
             '(declare-const b Int)\n(assert (> (+ a (* 2 b)) (- b 7)))\n'
             '(assert (< (* a a) (+ b 9)))\n(assert (= (- a 1) (+ b b)))\n'
             '(check-sat)\n')
    for n in (3, 6, 10, 14, 18, 27):
        for st, j in (('ddmin', 1), ('hybrid', 2)):
            cfgs.append((arith, {'mode': 'count',
                                 'counts': {'assert': 3, 'check-sat': 1},
                                 'delay_ms': 2},
                         ['--strategy', st, '-j', str(j)],
                         {'strategy': st, 'jobs': j,
                          'n': 'enospc-%d-%s' % (n, st),
                          'env': {'VERIF_FAULT': 'oserror:%d' % n}}))
    return cfgs


def sched_configs(r, tier):
    """Runs whose completion order is dictated: every sequence of D choices
    (which of the blocked checks finishes next; afterwards the run is left to
    itself), over a
    parallel-ddmin input (every third assertion must stay) and a permissive
    hierarchical input."""
    import itertools
    out = []
    plans = [(2, 3), (3, 2)] if tier == 'quick' else [(2, 6), (3, 4), (4, 3)]
    for jobs, depth in plans:
        for strat in ('ddmin', 'hierarchical'):
            na = 9
            text = ('(set-logic QF_LIA)\n(declare-const x Int)\n' +
                    ''.join(f'(assert (> x {k + 100}))\n' for k in range(na))
                    + '(check-sat)\n')
            if strat == 'ddmin':
                keep = [str(100 + k) for k in range(na) if k % 3 == 0]
            else:
                keep = ['100']
            spec = {'mode': 'contains', 'markers': ['check-sat'] + keep}
            for choices in itertools.product(range(jobs), repeat=depth):
                for tail in ('free', ):
                    # (only the erase mutator: the property is about the
                    # strategies, and the runs stay short)
                    out.append((text, dict(spec),
                                ['--strategy', strat, '-j', str(jobs),
                                 '--disable-all', '--erase-node'],
                                {'strategy': strat, 'jobs': jobs,
                                 'n': f's{jobs}{strat}{choices}{tail}',
                                 'sched': {'jobs': jobs,
                                           'choices': list(choices),
                                           'tail': tail}}))
    return out


# (system, workers, sample size | None = all, late completions while the main
# loop is held after a success)
REPLAY = {'quick': [('ab', 2, 80, 1)],
          'thorough': [('ab', 2, 600, 1), ('a_b', 2, 300, 1),
                       ('abc', 2, 200, 1), ('ab_c', 3, None, 1, 'num=300')]}


DREPLAY = {'quick': [(4, None)], 'thorough': [(5, None), (6, 400)]}


def replay_report(rep, rr):
    """A run that leaves the behaviour it was generated from is reported in
    the evidence; it is a violation only if the run itself breaks the
    property (judged like every other run) - another schedule is not."""
    div = [(it, d, b, diffs) for it, d, b, diffs in rr if diffs]
    rep.cov['replay_divergences'] = len(div)
    for it, d, b, diffs in div[:3]:
        rep.sample({'replay_divergence': diffs[:4], 'system': d['name'],
                    'behaviour_chain': b['chain']})
    for it, d, b, diffs in rr[:1]:
        rep.sample({'replayed_behaviour': {
            'system': d['name'], 'input': d['text'], 'options': it.opts,
            'sweeps': [(s['pass'], s['skip'], s['base'],
                        [(c['cand'], c['v'], c['ab']) for c in s['comps']])
                       for s in b['sweeps']],
            'chain': b['chain'], 'controlled_releases':
            it.meta.get('controlled')}})


def judge(rep, items):
    for it in items:
        r = it.run
        rep.count()
        key = S.describe(it)
        if r.timed_out or r.status != 0:
            # not this property's business (C03/C04); the trace is partial
            continue
        nw = sum(1 for e in r.events if e['ev'] == 'write')
        nrecv_ok = sum(1 for e in r.events
                       if e['ev'] == 'recv' and e.get('ok'))
        if nw >= 2 and nrecv_ok > nw:
            # at least one success was discarded (arrived after the abort
            # signal / after the first success of its batch)
            rep.nontrivial(common.digest(key))
        S.trace_violations(rep, it)
        # the file left at exit is the last element of the chain
        writes = [e for e in r.events if e['ev'] == 'write']
        if writes:
            last = writes[-1]['toks']
            from runs import out_tokens
            if out_tokens(r) != last:
                rep.violation(
                    'final-file-not-last-write:' + common.digest(key),
                    f'file at exit {out_tokens(r)} is not the last written '
                    f'content {last}; options {it.opts}', S.replay_obj(it))
    return


def main():
    a = common.std_args()
    rep = common.Report('C05', 'model_checking', a.tier)
    rep.cov['rule'] = (
        'model: all behaviours of Hier.tla / Ddmin.tla for the listed '
        'configurations; runs: seeded configurations (input x command x '
        'strategy x -j 2/3/4) executed free-running and validated by TLC; '
        'plus runs whose completion order is dictated by a scheduler the '
        'command talks to (all choice sequences of a depth); '
        'non-trivial = a run with >= 2 adoptions in which at least one '
        'success was discarded; distinct by (input, command, options)')
    rep.assumptions += [
        'completion orders of the real pool are sampled, not controlled; the '
        'model covers all of them',
        'the launcher wraps module-level functions; it adds no synchronisation '
        'other than a logging lock',
    ]
    if a.replay:
        with open(a.replay) as f:
            rp = json.load(f)['replay']
        cfgs = [(rp['input'], rp['spec'], rp['opts'], rp.get('meta', {}))] * 6
        items = S.validate(rep, S.execute(cfgs, label='replay'))
        judge(rep, items)
        S.cleanup(items)
        return rep.finish()
    S.model_check(rep, MODELS[a.tier])
    # the property is not vacuous: a faulty variant of the model is refuted
    S.model_refutes(rep, 'HierBad', 'MC_HierBad_stale.cfg', ['Chain', 'NoStaleAdoption'])
    # composition of the phases (Session.tla): hand-over, report, file
    S.model_check(rep, [('Session', 'MC_Session_%s.cfg' % st, 300)
                        for st in ('ddmin', 'hierarchical', 'hybrid')])
    S.model_refutes(rep, 'Session', 'MC_Session_bad_stale-handover.cfg',
                    ['HandOver'])
    S.model_refutes(rep, 'Session', 'MC_Session_bad_stale-result.cfg',
                    ['FileIsCurrent'])
    # strategy_ddmin.reduce above one mutator (DdminOuter.tla)
    S.model_check(rep, [('DdminOuter', 'MC_DdminOuter.cfg', 300),
                        ('DdminOuter', 'MC_DdminOuter_nogrowth.cfg', 300)])
    S.model_refutes(rep, 'DdminOuter', 'MC_DdminOuter_bad_leave-early.cfg',
                    ['Stage1LeftAtFixpoint'])
    S.model_refutes(rep, 'DdminOuter', 'MC_DdminOuter_bad_stop-early.cfg',
                    ['StopsOnlyAfterQuietSweep'])
    for v in ('noskip', 'lower'):
        S.model_refutes(rep, 'DdminBad', f'MC_DdminBad_{v}.cfg',
                        ['Chain', 'NoStaleAdoption'])
    r = random.Random(common.seed() + 5)
    cfgs = make_configs(r, NRUNS[a.tier])
    items = S.validate(rep, S.execute(cfgs, label='c05'))
    judge(rep, items)
    # completion orders enumerated, not sampled
    scfgs = sched_configs(r, a.tier)
    sitems = S.validate(rep, S.execute(scfgs, label='c05s', parallel=8))
    judge(rep, sitems)
    orders = {tuple(map(tuple, it.meta.get('decisions', []))) for it in sitems}
    rep.cov['scheduled_runs'] = len(sitems)
    rep.cov['distinct_completion_orders'] = len(orders)
    rep.cov['scheduled_runs_with_discarded_success'] = sum(
        1 for it in sitems
        if sum(1 for e in it.run.events if e['ev'] == 'recv' and e.get('ok'))
        > sum(1 for e in it.run.events if e['ev'] == 'write'))
    S.cleanup(sitems)
    # specification -> code: behaviours generated by TLC from HierSched.tla
    # over the reduction system extracted from the real passes (all verdict
    # functions x all dictatable completion orders) replayed into the real
    # pool; every run is judged like the others, and compared step by step
    # with the behaviour it was generated from
    import hreplay
    rr = hreplay.replay_all(rep, S, REPLAY[a.tier], common.seed() + 55,
                            'c05r')
    judge(rep, [x[0] for x in rr])
    replay_report(rep, rr)
    S.cleanup([x[0] for x in rr])
    # the same for sequential ddmin (DdminEmit.tla): one behaviour per
    # deterministic command over N assertions, replayed with -j 1
    import dreplay
    dr = dreplay.replay_all(rep, S, DREPLAY[a.tier], common.seed() + 56,
                            'c05d')
    judge(rep, [x[0] for x in dr])
    ddiv = [(b, d) for it, b, d in dr if d]
    rep.cov['ddmin_replay_divergences'] = len(ddiv)
    for b, d in ddiv[:3]:
        rep.sample({'ddmin_replay_divergence': d[:2], 'chain': b['chain']})
    S.cleanup([x[0] for x in dr])
    for it in items[:4]:
        rep.sample({'config': S.describe(it),
                    'writes': [e['toks'] for e in it.run.events
                               if e['ev'] == 'write'][:4],
                    'hier_verdict': str(it.hier_v)[:80],
                    'ddmin_verdict': str(it.ddmin_v)[:80]})
    rep.cov['runs'] = len(items)
    rep.cov['runs_with_parallel_ddmin'] = sum(
        1 for it in items if it.ddmin and it.ddmin['used_par'])
    S.cleanup(items)
    return rep.finish()


if __name__ == '__main__':
    common.main_wrapper(main)
