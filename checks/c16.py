"""C16 - inferred sorts and bit-widths are never wrong.

The typing rules are stated in TLA+ (SmtSem.tla: SortVal, ResSort, SortOf,
Annot - written from the SMT-LIB theory declarations).  GenTerms.tla makes TLC
enumerate every operator of the signature applied to operands of every
admissible sort combination of a sort universe (variables, constants in every
notation, applications of declared functions, one level of nesting, let,
quantifiers, datatypes) and record SortOf for every term position.

spec -> code: every generated script is parsed, collect_information is run and
smtlib.get_sort / get_bv_width are called at every term position (in pre-order
and, after a fresh collect_information, in reverse order); an answer must be
"unknown" (None / -1) or the sort / width TLC computed.  Disagreements and a
sample of agreements are re-judged by TLC itself (SemConform.tla, kind
"sort": SortVal(claimed) = SortOf(term)).

code -> spec: the same is recorded on the hand-kept seed scripts of all
theories (lib/seeds.py) and on extra scripts, and TLC judges every term
position it can type in scripts whose symbols are bound once.

consumers: every proposal of Constants, ReplaceByVariable, ReplaceByChild and
IntroduceFreshVariable on these scripts is applied with the real apply_simp
and TLC judges that the term at the rewritten position has the sort of the
term it replaced (kind "samesort").
"""
import json
import os
import random
import sys

sys.path.insert(0, os.path.join(os.path.dirname(os.path.abspath(__file__)),
                                '..', 'lib'))
import common  # noqa: E402
import ddsmt_env  # noqa: E402
import proposals as P  # noqa: E402
import semconform as SC  # noqa: E402
import seeds  # noqa: E402
import tlaval  # noqa: E402

CFG = {'quick': ('MC_GenTerms_q.cfg', 600), 'thorough': ('MC_GenTerms_t.cfg', 3000)}
SAMPLE = {'quick': 0.05, 'thorough': 0.02}
CONSUMERS = ('Constants', 'ReplaceByVariable', 'ReplaceByChild',
             'IntroduceFreshVariable')
FLOATS = {'Float16': ['_', 'FloatingPoint', '5', '11'],
          'Float32': ['_', 'FloatingPoint', '8', '24'],
          'Float64': ['_', 'FloatingPoint', '11', '53'],
          'Float128': ['_', 'FloatingPoint', '15', '113']}

# scripts that exercise inference through tables rebuilt per input (extra
# code -> spec inputs beside lib/seeds.py); every symbol bound once
DEEP_LET = {'quick': 420, 'thorough': 1200}
EXTRA = {
    'let_in_let_binding': '''
(declare-const x (_ BitVec 8))
(declare-const y (_ BitVec 12))
(assert (let ((a (let ((b (bvnot x))) ((_ zero_extend 4) b)))) (= a y)))
''',
    'let_chain_widths': '''
(declare-const x (_ BitVec 4))
(assert (let ((a (concat x x))) (let ((c ((_ repeat 2) a))) (= c ((_ zero_extend 8) a)))))
''',
    'array_select_store': '''
(declare-const m (Array (_ BitVec 4) Int))
(declare-const i (_ BitVec 4))
(declare-const n Int)
(assert (= (select (store m i (+ n 1)) i) (- n)))
(assert (= ((_ zero_extend 4) i) (concat i i)))
''',
    'fp_mixed': '''
(declare-const h Float16)
(declare-const g (_ FloatingPoint 5 11))
(declare-const r RoundingMode)
(declare-fun k (Int) (_ BitVec 5))
(assert (fp.eq (fp.add r h g) (fp #b0 (k 1) #b0000000000)))
(assert (= ((_ fp.to_ubv 8) r h) ((_ extract 7 0) ((_ zero_extend 3) (concat (k 2) #b1)))))
''',
    'dt_enum': '''
(declare-datatype Color ((red) (green) (blue)))
(declare-datatype Box ((box (content Color) (weight Int))))
(declare-const c Color)
(declare-const bx Box)
(assert (= (content bx) c))
(assert (> (weight (box red 1)) 0))
(assert ((_ is box) bx))
''',
    'funs_same_result_sort': '''
(declare-fun pred (Int) Bool)
(declare-fun tw (Int) Int)
(declare-const flag Bool)
(declare-const num Int)
(assert (and flag (pred (tw num))))
(assert (= (tw (tw num)) (+ num 1)))
''',
    # a two-step history (processed in this order): the tables are rebuilt
    # per input, so names that were constructors / selectors of a datatype in
    # the previous input are plain functions and constants in the next one
    'zz_history_1_datatype': '''
(declare-datatype P ((mk (fst Int)) (red) (green)))
(declare-const d P)
(assert (= d (mk 1)))
(assert (distinct d red green))
(assert (> (fst d) 0))
''',
    'zz_history_2_names_reused': '''
(declare-fun mk (Int) Int)
(declare-fun fst (Bool) Bool)
(declare-const red Int)
(declare-const q Int)
(declare-const b Bool)
(assert (= (mk red) q))
(assert (fst (> (mk q) red)))
(assert (= b (fst b)))
''',
    'datatypes_block': '''
(declare-datatypes ((Expr 0) (Args 0))
  (((lit (val Int)) (app (fn Int) (args Args)) (neg (sub Expr)))
   ((none) (more (hd Expr) (tl Args)) (one (only Expr)))))
(declare-const e Expr)
(declare-const l Args)
(assert (= l (more e none)))
(assert (= e (app 1 (more (lit 2) (one (neg e))))))
(assert (distinct (tl l) (one e)))
''',
    'selector_on_other_constructor': '''
(declare-datatype Shape ((circle (radius Real)) (rect (w Int) (h Int)) (pt (tag Bool))))
(declare-const s Shape)
(assert (> (radius (rect 2 3)) 0.5))
(assert (tag (rect 4 5)))
(assert (= (w (circle 1.5)) (h s)))
''',
    # select over a store whose base ddSMT cannot type (an application of a
    # declared function, a parameter of a defined function)
    'select_store_untyped_base': '''
(declare-fun f (Int) (Array Int Bool))
(declare-fun pick ((Array Int Bool)) Int)
(declare-const j Int)
(define-fun g ((a (Array (_ BitVec 4) (_ BitVec 8))) (i (_ BitVec 4))) (_ BitVec 8) (select (store a i #x01) (bvnot i)))
(assert (select (store (f 0) j true) (+ j 1)))
(assert (= (pick (store (f 1) j false)) (+ j 2)))
(assert (= (g ((as const (Array (_ BitVec 4) (_ BitVec 8))) #x00) #b0001) #x01))
''',
    'ite_unknown_branch': '''
(declare-fun u (Int) (_ BitVec 3))
(declare-const c Bool)
(declare-const w (_ BitVec 3))
(assert (= (ite c (u 0) w) ((_ extract 2 0) (concat (u 1) w))))
(assert (= ((_ sign_extend 2) (u 2)) ((_ repeat 1) ((_ zero_extend 2) w))))
''',
}


def norm_claim(node):
    """claimed sort (ddsmt Node) -> nested lists of str, Float synonyms
    expanded"""
    def go(n):
        if n.is_leaf():
            s = str(n.data)
            return FLOATS.get(s, s)
        return [go(c) for c in n.data]
    return go(node)


def sortname(s):
    return 'ill' if tuple(s) == ('ill',) else ''.join(
        str(x) if not isinstance(x, tuple) else '[' + sortname(x) + ']'
        for x in s)


def opname(n):
    """operator of an application (indexed operators by their name)"""
    if n.is_leaf():
        return 'leaf'
    if len(n) == 0:
        return '()'
    h = n.data[0]
    if h.is_leaf():
        return str(h.data)
    if len(h) >= 2 and h.data[0].is_leaf() and h.data[0].data == '_':
        return '_' + str(h.data[1].data)
    return '?'


def argshape(n):
    """which operands are applications / atoms (distinguishes e.g. an
    unknown-width operand from a variable)"""
    if n.is_leaf():
        return ''
    return ''.join('L' if c.is_leaf() else 'A' for c in n.data[1:])[:6]


def node_at(exprs, path):
    n = exprs[path[0] - 1]
    for j in path[1:]:
        n = n.data[j - 1]
    return n


def query(mods, exprs, positions, order):
    """Call get_sort / get_bv_width at `positions` (list of paths) after a
    fresh collect_information; returns {path: (sort Node|None|'EXC', width)}"""
    smtlib = mods['smtlib']
    smtlib.collect_information(exprs)
    out = {}
    seq = positions if order == 'pre' else list(reversed(positions))
    for p in seq:
        n = node_at(exprs, p)
        try:
            s = smtlib.get_sort(n)
        except Exception as e:  # noqa: a raising mutator helper (C04)
            s = 'EXC:' + type(e).__name__
        try:
            w = smtlib.get_bv_width(n)
        except Exception as e:  # noqa
            w = 'EXC:' + type(e).__name__
        out[p] = (s, w)
    return out


def claims_to_recs(q, positions):
    recs = []
    for p in positions:
        s, w = q[p]
        if isinstance(s, str) or s is None:
            sx = {'none': 1}
        else:
            sx = SC.enc_node(s)
        recs.append([list(p), sx, w if isinstance(w, int) else -1])
    return recs


def consumer_cases(mods, rep, exprs, name, cases, meta, stats, seen):
    """One samesort case per script: every proposal of the consumer mutators
    (path of the replaced node, replacement, fresh declarations)."""
    muts = [m for m in P.all_mutators(mods)
            if type(m).__name__ in CONSUMERS]
    paths = SC.paths_of(exprs)
    text = mods['nodeio'].write_smtlib_to_str(exprs)
    props, info = [], []
    import itertools
    # both calling conventions of the strategies: node by node (hierarchical)
    # and "filter every node, then ask the accepted ones" (ddmin)
    for p in itertools.chain(P.enumerate_proposals(mods, exprs, muts),
                             P.enumerate_batch(mods, exprs, muts)):
        if p['error']:
            stats['consumer_errors'] += 1
            continue
        simp = p['simp']
        keys = [k for k in simp.substs if isinstance(k, int)]
        if len(keys) != 1 or len(simp.substs) != 1 or keys[0] not in paths:
            continue
        repl = simp.substs[keys[0]]
        if repl is None:
            continue
        if p['mut'] == 'ReplaceByChild':
            # the statement names replacements by constants, existing and
            # fresh variables; a child is only judged when ddSMT claims a
            # definite common sort for it (it also tries children of terms
            # whose sort it does not know)
            try:
                if mods['smtlib'].get_sort(p['node']) is None:
                    continue
            except Exception:  # noqa
                continue
        key = (p['mut'], str(p['node']), str(repl),
               ' '.join(str(d) for d in simp.fresh_vars))
        if key in seen:
            continue
        seen.add(key)
        rep.count()
        stats['proposals'] += 1
        props.append([list(paths[keys[0]]), SC.enc_node(repl),
                      SC.enc_forest(simp.fresh_vars)])
        info.append({'mutator': p['mut'], 'node': str(p['node'])[:200],
                     'replacement': str(repl)[:200]})
    # the strategies call collect_information per input; restore it
    mods['smtlib'].collect_information(exprs)
    if not props:
        return
    cid = len(cases)
    cases.append({'cid': cid, 'kind': 'samesort',
                  'script': SC.enc_forest(exprs), 'props': props})
    meta[cid] = {'what': 'consumer', 'seed': name, 'input': text,
                 'props': info}


def main():
    a = common.std_args()
    ddsmt_env.load()
    mods = ddsmt_env.mods()
    nodeio = mods['nodeio']
    rep = common.Report('C16', 'model_checking', a.tier)
    rep.cov['rule'] = (
        'GenTerms.tla: every operator instance of SmtSem!ResSort x every '
        'admissible tuple of argument sorts of the universe x (one operand '
        'position ranging over all atoms of its sort: variables, constants '
        'in every notation, applications of declared functions), special '
        'forms (let, quantifiers, annotations, datatypes) and (thorough) '
        'one level of nesting under sort-propagating operators; one case '
        'per term; non-trivial = ddSMT claims a definite sort or width at '
        'some position; distinct by term.  Plus the seed scripts of '
        'lib/seeds.py and EXTRA, judged by TLC at every term position, and '
        'every proposal of the four consumer mutators on all of them.')
    rep.assumptions += [
        'SmtSem.tla is the trusted statement of the SMT-LIB typing rules; '
        'terms it cannot type (Ill) are not judged',
        'a helper that raises on a term is counted (evidence: exceptions), '
        'not judged: a raising mutator costs only its candidates (C04)',
        'a variable bound by let/quantifier counts as visible everywhere '
        'when a consumer proposes it: scope is not sort inference',
    ]
    rnd = random.Random(common.seed() + 16)
    stats = {'positions': 0, 'definite_sort': 0, 'definite_width': 0,
             'exceptions': 0, 'proposals': 0, 'consumer_errors': 0,
             'suspects': 0}
    cases, meta = [], {}
    seen_props = set()

    def add_sort_case(exprs, recs, info):
        cid = len(cases)
        cases.append({'cid': cid, 'kind': 'sort',
                      'script': SC.enc_forest(exprs), 'recs': recs})
        meta[cid] = info

    if a.replay:
        with open(a.replay) as f:
            rp = json.load(f)['replay']
        gen = []
        extra = [('replay', rp['input'])]
    else:
        cfg, tmo = CFG[a.tier]
        gen = common.tlc_generate(rep, 'GenTerms', cfg, timeout=tmo,
                                  prefilter=None)
        extra = seeds.all_seeds() + sorted(EXTRA.items())

    # ---- spec -> code: TLC-generated terms -------------------------------
    preamble = None
    pending = []
    for st in gen:
        if not st.get('done'):
            preamble = [SC.dec(x) for x in st['ann']]
            pre_text = '\n'.join(SC.render(x) for x in preamble) + '\n'
            continue
        pending.append(st)
    n_pre = len(preamble) if preamble else 0
    consumer_budget = {'quick': 400, 'thorough': 3000}[a.tier]
    for st in pending:
        term = SC.dec(st['t'])
        ann = st['ann']
        root_sort = SC.render(SC.dec(ann[0][2]))
        if ann[0][1] == ('Bool',):
            cmd = '(assert ' + SC.render(term) + ')'
            prefix = (n_pre + 1, 2)
        else:
            cmd = '(define-fun rr () ' + root_sort + ' ' + SC.render(term) + ')'
            prefix = (n_pre + 1, 5)
        text = pre_text + cmd + '\n'
        exprs = list(nodeio.parse_smtlib(text))
        positions = [prefix + tuple(x[0]) for x in ann]
        expect = {prefix + tuple(x[0]): (SC.dec(x[2]), x[1]) for x in ann}
        rep.count()
        suspect = False
        definite = False
        recs_all = None
        for order in ('pre', 'post'):
            q = query(mods, exprs, positions, order)
            for p in positions:
                s, w = q[p]
                stats['positions'] += 1
                exp_sx, exp_val = expect[p]
                if isinstance(s, str) or isinstance(w, str):
                    stats['exceptions'] += 1
                if s is not None and not isinstance(s, str):
                    stats['definite_sort'] += 1
                    definite = True
                    if norm_claim(s) != exp_sx:
                        suspect = True
                if isinstance(w, int) and w != -1:
                    stats['definite_width'] += 1
                    definite = True
                    if not (exp_val[0] == 'BV' and exp_val[1] == w):
                        suspect = True
            if suspect or recs_all is None:
                recs_all = claims_to_recs(q, positions)
            if suspect:
                break
        if definite:
            rep.nontrivial(SC.render(term))
        if suspect:
            stats['suspects'] += 1
        if suspect or rnd.random() < SAMPLE[a.tier]:
            add_sort_case(exprs, recs_all,
                          {'what': 'generated', 'term': SC.render(term),
                           'input': text, 'suspect': suspect})
        if consumer_budget > 0 and (rnd.random() < 0.15 or a.tier == 'quick'
                                    and rnd.random() < 0.3):
            consumer_budget -= 1
            consumer_cases(mods, rep, exprs, 'gen:' + SC.render(term), cases,
                           meta, stats, seen_props)
        rep.sample({'term': SC.render(term), 'sort': root_sort}, limit=5)

    # a let whose second binding is too deep for recursive inference (the
    # first one is typed): whatever ddSMT then claims for the names in the
    # body must still be right.  TLC judges the positions outside the deep
    # term against the same script with the deep term replaced by (+ n 1) -
    # same sort by construction; the JSON reader of TLC stops at 255 levels
    if not a.replay:
        deep = 'n'
        for _ in range(DEEP_LET[a.tier]):
            deep = '(+ ' + deep + ' 1)'
        tmpl = ('(declare-const n Int)\n(declare-const v (_ BitVec 8))\n'
                '(assert (let ((p (bvnot v)) (s %s)) '
                '(and (= p v) (> s 0) (= (- s) n))))\n')
        full = list(nodeio.parse_smtlib(tmpl % deep))
        short = list(nodeio.parse_smtlib(tmpl % '(+ n 1)'))
        spaths = SC.paths_of(short)
        positions = sorted(p for p in spaths.values() if len(p) >= 2
                           and p[:6] != (3, 2, 2, 2, 2, 1) and
                           p[:5] != (3, 2, 2, 2, 2))
        rep.count()
        for order in ('pre', 'post'):
            q = query(mods, full, positions, order)
            stats['positions'] += len(positions)
            add_sort_case(short, claims_to_recs(q, positions),
                          {'what': 'seed', 'seed': 'deep_let_second_binding',
                           'order': order, 'input': tmpl % deep,
                           'suspect': False})
        rep.nontrivial('seed:deep_let_second_binding')
    # ---- code -> spec: seed scripts --------------------------------------
    for name, text in extra:
        try:
            exprs = list(nodeio.parse_smtlib(text))
        except Exception:  # noqa: C08's business
            continue
        paths = SC.paths_of(exprs)
        positions = sorted(p for p in paths.values() if len(p) >= 2)
        rep.count()
        for order in ('pre', 'post'):
            q = query(mods, exprs, positions, order)
            stats['positions'] += len(positions)
            for p in positions:
                s, w = q[p]
                if isinstance(s, str) or isinstance(w, str):
                    stats['exceptions'] += 1
                if s is not None and not isinstance(s, str):
                    stats['definite_sort'] += 1
                if isinstance(w, int) and w != -1:
                    stats['definite_width'] += 1
            add_sort_case(exprs, claims_to_recs(q, positions),
                          {'what': 'seed', 'seed': name, 'order': order,
                           'input': text, 'suspect': False})
        rep.nontrivial('seed:' + name)
        consumer_cases(mods, rep, exprs, name, cases, meta, stats,
                       seen_props)

    # ---- TLC judges -------------------------------------------------------
    verdicts = SC.judge(rep, cases, 'c16')
    tally = {}
    for c in cases:
        v, detail = verdicts[c['cid']]
        m = meta[c['cid']]
        tally[c['kind'] + ':' + v] = tally.get(c['kind'] + ':' + v, 0) + 1
        if v == 'bad' and c['kind'] == 'sort':
            exprs = list(nodeio.parse_smtlib(m['input']))
            for kind, idxs in (('sort', detail[0]), ('width', detail[1])):
                for ix in sorted(idxs):
                    rec = c['recs'][ix - 1]
                    n = node_at(exprs, rec[0])
                    where = str(n)[:160]
                    head = opname(n)
                    claimed = (None if 'none' in rec[1]
                               else SC.render(SC.dec(rec[1])))
                    val = claimed if kind == 'sort' else rec[2]
                    rep.violation(
                        f'wrong-{kind}:{head}:{val}:{argshape(n)}',
                        f'ddSMT infers {kind} {val} for {where!r}; TLC '
                        f'(SmtSem!SortOf) rejects it',
                        {'input': m['input'], 'term': where,
                         'claimed_sort': claimed, 'claimed_width': rec[2]})
        elif v == 'bad' and c['kind'] == 'samesort':
            for ix, s1, s2 in sorted(detail, key=lambda x: x[0]):
                pi = m['props'][ix - 1]
                rep.violation(
                    f'ill-sorted-replacement:{pi["mutator"]}:'
                    f'{sortname(s1)}->{sortname(s2)}:'
                    f'{pi["node"].strip("(").split(" ")[0][:30]}:'
                    f'{pi["replacement"].strip("(").split(" ")[0][:30]}',
                    f'{pi["mutator"]} replaces {pi["node"]!r} by '
                    f'{pi["replacement"]!r}: sort {sortname(s1)} becomes '
                    f'{sortname(s2)} (input {m["seed"][:80]})',
                    {'input': m['input'], 'mutator': pi['mutator'],
                     'node': pi['node'], 'replacement': pi['replacement']})
        elif m.get('suspect') and v == 'ok':
            # the harness-side comparison and TLC disagree: TLC decides
            tally['suspect-cleared'] = tally.get('suspect-cleared', 0) + 1
    rep.cov['traces_validated_against_impl'] = len(cases)
    rep.cov['judge_tally'] = tally
    rep.cov.update(stats)
    if not a.replay:
        rep.cov['exhaustive'] = True
    return rep.finish()


if __name__ == '__main__':
    common.main_wrapper(main)
