"""C04 - every run completes: no internal failure on any input, meaningful
exit status.

Model: specs/Main.tla (phases, usage errors, exit status; TLC checks
StatusZeroIffCompleted and enumerates the usage matrix) and
specs/GenShapes.tla (every identifier ddSMT treats specially x arity x child
shape; heads collected from the sources of the tree under test).
Binding:
 (a) every generated shape, at top level and inside an assert, is replayed
     in-process through everything ddSMT runs UNGUARDED in its main process:
     parse_smtlib, auto_detect_theories, collect_information, ddmin task
     generation (TaskGenerator for every mutator and granularity), the
     hierarchical Producer (whose own guard must hold), all writers;
 (b) every situation of Main.tla's usage matrix is replayed through both
     entry points (bin/ddsmt, python -m ddsmt): exit status and a one-line
     diagnostic without traceback;
 (c) CLI runs on sampled shapes with keyword-adversarial commands: no
     traceback, status in {0, 1}, status 0 exactly when minimisation ran to
     completion.
"""
import json
import multiprocessing
import os
import random
import re
import signal
import stat
import sys
import time

sys.path.insert(0, os.path.join(os.path.dirname(os.path.abspath(__file__)),
                                '..', 'lib'))
import common  # noqa: E402
import ddsmt_env  # noqa: E402
import runs  # noqa: E402

NEST = ['let', 'forall', '_', '!', 'declare-const', 'define-fun', 'ite',
        'bvand', '=', 'not', 'str.++', 'declare-datatypes']
STOP = {'exprs', 'filter', 'id', 'ident', 'inc', 'dec', 'global_mutations',
        'mutations', 'Task', 'Result', 'max_depth', 'tests', 'success',
        'diff', 'runtime', 'i', 'w', 'r', 'assert-ident'}
KID = {'sym': 'x', 'num': '1', 'bvb': '#b0101', 'bvx': '#x0F', 'str': '"s"',
       'nil': '()', 'lsym': '(x)', 'lnil': '(())', 'llsym': '((x))',
       'lmix': '((x Int) ())'}
PRELUDE = ('(declare-const x Int)\n(declare-const y Int)\n'
           '(declare-const b (_ BitVec 4))\n(declare-const s String)\n')


def collect_heads():
    """Identifiers the sources treat specially (quoted strings that look like
    SMT-LIB symbols), minus mutator class and option names."""
    from ddsmt import mutators
    names = set()
    for g, (mod, ms) in mutators.get_all_mutators().items():
        names.add(g)
        for c, o in ms.items():
            names.add(c)
            names.add(o)
    heads = set()
    src = os.path.join(common.REPO, 'ddsmt')
    for fn in sorted(os.listdir(src)):
        if not fn.endswith('.py') or fn.startswith('test'):
            continue
        if not (fn.startswith(('smtlib', 'mutators', 'nodeio', 'strategy'))):
            continue
        with open(os.path.join(src, fn)) as f:
            for m in re.finditer(r"'([A-Za-z_.!=<>+*/-][A-Za-z0-9_.!=<>+*/-]*)'",
                                 f.read()):
                h = m.group(1)
                if h in names or h in STOP or h.startswith('--') or len(h) > 24:
                    continue
                heads.add(h)
    return sorted(heads)


def shape_text(head, kids):
    parts = []
    for k in kids:
        if k[0] == 'nest':
            parts.append(f'({k[1]} x)')
        else:
            parts.append(KID[k[0]])
    return '(' + ' '.join([head] + parts) + ')'


class DummyFlag:

    def is_set(self):
        return False


DEEP_TERM = ('(declare-const p Bool)\n(assert ' + '(not ' * 1500 + 'p' +
             ')' * 1500 + ')\n(check-sat)\n')
# characters that other notions of white space include (form feed, vertical
# tab, file/group/record/unit separators, NEL, no-break space, Unicode
# spaces): not white space for SMT-LIB, but no reason to abort either
ODD_WS = ['\x0c', '\x0b', '\x1c', '\x1d', '\x1e', '\x1f', '\x85', '\xa0',
          '\u2003', '\u3000', '\ufeff', '\x00', '\x7f']
ODD_TEXTS = [DEEP_TERM] + [
    f'(declare-const x Int){c}(assert (> x{c} 0))\n(check-sat){c}' for c in ODD_WS
] + [')', '(', '(assert (x)', '(a))', '(a)) (b)', '"unterminated',
             '|unterminated', 'a b c', '()', '', '(()', '())', ';only comment',
             '(assert true) )', '(declare-const x Int', ') (check-sat)',
             '(set-logic', '"s" (check-sat)', '(x)(y)(z))))']


def expected_tasks(muts, exprs, params):
    """(BFS index, task name) of every proposal, each mutator guarded on its
    own (proposals yielded before a mutator raises count)."""
    from ddsmt import nodes
    want = []
    count = 0
    for node in nodes.bfs(exprs, params.get('max_depth', None)):
        count += 1
        for m in muts:
            try:
                if hasattr(m, 'filter') and not m.filter(node):
                    continue
                if hasattr(m, 'mutations'):
                    for _ in m.mutations(node):
                        want.append((count, str(m)))
                if hasattr(m, 'global_mutations'):
                    for _ in m.global_mutations(node, exprs):
                        want.append((count, f'(global) {m}'))
            except Exception:  # noqa: costs this mutator's candidates only
                pass
    return want


def main_process_paths(shape, placement):
    """Run every unguarded main-process code path on one input.  Returns a
    list of (function, exception class, message)."""
    from ddsmt import (nodeio, mutators, smtlib, options, strategy_ddmin as sd,
                       strategy_hierarchical as sh)
    if placement == 'raw':
        text = shape
    elif placement == 'top':
        text = PRELUDE + shape + '\n(check-sat)\n'
    elif placement == 'let':
        # as the term of a let binding: collect_information infers its sort
        text = PRELUDE + f'(assert (let ((v {shape})) (= v v)))\n(check-sat)\n'
    else:
        text = PRELUDE + f'(assert {shape})\n(check-sat)\n'
    bad = []
    ns = options.args()
    saved = dict(vars(ns))
    try:
        try:
            exprs = list(nodeio.parse_smtlib(text))
        except Exception as e:  # noqa
            return [('parse_smtlib', type(e).__name__, str(e))], text
        try:
            mutators.auto_detect_theories(exprs)
        except Exception as e:  # noqa
            bad.append(('auto_detect_theories', type(e).__name__, str(e)))
        try:
            smtlib.collect_information(exprs)
        except Exception as e:  # noqa
            bad.append(('collect_information', type(e).__name__, str(e)))
            return bad, text
        # both strategies count nodes / expressions of the input in the main
        # process
        from ddsmt import nodes as _nodes
        for fn in (_nodes.count_nodes, _nodes.count_exprs):
            try:
                fn(exprs)
            except Exception as e:  # noqa
                bad.append((fn.__name__, type(e).__name__, str(e)))
        # everything enabled for the generators
        mutators.toggle_all_theories(ns, True)
        try:
            passes = sd.ddmin_passes()
        except Exception as e:  # noqa
            bad.append(('ddmin_passes', type(e).__name__, str(e)))
            passes = []
        for pi, p in enumerate(passes):
            for m in p:
                try:
                    tg = sd.TaskGenerator(exprs, None, m, 1 if pi == 0 else None)
                    gran = tg.gran
                    while gran > 0:
                        for _ in tg:
                            pass
                        gran //= 2
                        tg = sd.TaskGenerator(exprs, gran, m,
                                              1 if pi == 0 else None)
                except Exception as e:  # noqa
                    bad.append((f'ddmin TaskGenerator[{type(m).__name__}]',
                                type(e).__name__, str(e)))
        try:
            hp = sh.get_passes()
        except Exception as e:  # noqa
            bad.append(('get_passes', type(e).__name__, str(e)))
            hp = []
        for i in range(len(hp)):
            muts, params = sh.get_pass(hp, i)
            try:
                prod = sh.Producer(muts, DummyFlag(), exprs)
                got = [(t.nodeid, t.name) for t in prod.generate(0, params)]
            except Exception as e:  # noqa
                bad.append(('hierarchical Producer', type(e).__name__, str(e)))
                continue
            # a failure inside one mutator costs only that mutator's
            # candidates: the tasks must be exactly what every mutator
            # proposes when each one is guarded on its own
            want = expected_tasks(muts, exprs, params)
            if got != want:
                lost = [x for x in want if x not in got]
                extra = [x for x in got if x not in want]
                bad.append(('hierarchical Producer loses candidates',
                            'TaskListDiffers',
                            f'pass {i}: {len(got)} tasks, expected '
                            f'{len(want)}; missing e.g. {lost[:3]}, '
                            f'unexpected e.g. {extra[:3]}'))
        for mode in ('default', 'pretty', 'wrap'):
            ns.pretty_print = (mode == 'pretty')
            ns.wrap_lines = (mode == 'wrap')
            try:
                nodeio.write_smtlib_to_str(exprs)
            except Exception as e:  # noqa
                bad.append((f'write_smtlib[{mode}]', type(e).__name__, str(e)))
    finally:
        for k, v in saved.items():
            setattr(ns, k, v)
    return bad, text


def edits_worker(chunk):
    """Edited commands of GenEdits.tla (texts), each as a top-level command
    after the prelude."""
    import logging
    import io
    logging.disable(logging.CRITICAL)
    sys.stderr = io.StringIO()
    out = []
    for cmd in chunk:
        bad, text = main_process_paths(cmd, 'top')
        out.append((cmd, text, bad))
    return out


def shapes_worker(chunk):
    import logging
    import io
    logging.disable(logging.CRITICAL)
    sys.stderr = io.StringIO()   # the Producer prints caught tracebacks
    out = []
    for head, kids, quick in chunk:
        sh_ = shape_text(head, kids)
        for placement in (('top', 'assert', 'let') if not quick or
                          len(kids) <= 1 else ('top', 'assert')):
            bad, text = main_process_paths(sh_, placement)
            out.append((head, kids, placement, text, bad))
    return out


# ------------------------------------------------------------ usage matrix


def usage_run(k, sit):
    """One situation of Main.tla's matrix through a real entry point."""
    wd = common.subscratch(f'c04-usage{k}')
    spec = {'mode': 'contains', 'markers': ['check-sat', '3']}
    opts = ['--strategy', sit['strategy']]
    if sit.get('flag', 'none') != 'none':
        opts += sit['flag'].split(' ')
    f = sit['fault']
    import corpus
    text = corpus.FLAT
    hook = None
    pre = {}
    if f == 'match-out-absent':
        opts += ['--match-out', 'NOT-IN-THE-OUTPUT']
    elif f == 'match-err-absent':
        opts += ['--match-err', 'NOT-IN-THE-OUTPUT']
    elif f == 'match-both-out-absent':
        opts += ['--match-err', 'assertion', '--match-out',
                 'NOT-IN-THE-OUTPUT']
    elif f == 'match-both-err-absent':
        opts += ['--match-out', 'bug', '--match-err', 'NOT-IN-THE-OUTPUT']
    elif f == 'undecodable-output':
        # every candidate that lost the marker 3 but kept check-sat prints
        # bytes that are not UTF-8 (the check of such a candidate fails)
        spec['near'] = {'pred': {'mode': 'contains', 'markers': ['check-sat']},
                        'beh': {'exit': 1, 'out_hex': '62756720fffe0a',
                                'out': '', 'err': 'assertion failure\n'},
                        'acceptable': False}
        opts += ['-j', '2']
    elif f == 'golden-output-not-text':
        # the command prints bytes that are not UTF-8 whatever its input
        spec['accept'] = {'exit': 1, 'out_hex': '62756720fffe0a', 'out': '',
                          'err': 'assertion failure\n'}
        spec['reject'] = {'exit': 0, 'out_hex': 'fffe736174200a', 'out': '',
                          'err': ''}
    elif f == 'jobs-zero':
        opts += ['-j', '0']
    elif f == 'jobs-negative':
        opts += ['-j', '-3']
    elif f.startswith('golden-timeout'):
        # every run of the command, the golden one included, exceeds the limit
        spec['sleep_ms'] = 1500
        spec['markers'] = ['check-sat']
        opts += ['--timeout', '0.25', '-j', '4']
        text = '(declare-const x Int)\n(assert (> x 3))\n(check-sat)\n'
        if f.endswith('match-out'):
            opts += ['--match-out', 'bug']
        elif f.endswith('match-err'):
            opts += ['--match-err', 'assertion']
    elif f == 'interrupt':
        spec['delay_ms'] = 40

        def hook(p, run):
            time.sleep(1.4)
            try:
                os.kill(p.pid, signal.SIGINT)
            except OSError:
                pass
    r = runs.run_ddsmt(wd, text, spec, opts, entry=sit['entry'],
                       timeout=runs.time_limit(120),
                       popen_hook=hook,
                       mangle=f if f not in ('none', 'interrupt',
                                             'match-out-absent',
                                             'match-err-absent',
                                             'match-both-out-absent',
                                             'match-both-err-absent',
                                             'undecodable-output',
                                             'golden-output-not-text',
                                             'jobs-zero', 'jobs-negative') and
                       not f.startswith('golden-timeout') else None)
    return r


def terminal_runs(rep):
    """ddSMT on a terminal (stdout and stderr are a pseudo terminal, which
    switches the progress display on) with -v: inputs without any node, and
    an input that a command accepting everything reduces to nothing."""
    import pty
    import select
    import subprocess
    try:
        m0, s0 = pty.openpty()
        os.close(m0)
        os.close(s0)
    except OSError as e:
        # no pseudo terminals here: the situation cannot be produced
        rep.cov['terminal_runs'] = 0
        rep.cov['terminal_runs_skipped'] = f'no pseudo terminal: {e}'
        return
    base = common.subscratch('c04-tty')
    cmd = os.path.join(base, 'always.sh')
    with open(cmd, 'w') as f:
        f.write('#!/bin/sh\necho bug\nexit 1\n')
    os.chmod(cmd, 0o755)
    sits = []
    for text in ('', '\n  \n', '; only a comment\n',
                 '(assert a)\n(check-sat)\n'):
        for st in ('hierarchical', 'hybrid', 'ddmin'):
            for v in (['-v'], ['-vv'] if st == 'hierarchical' else []):
                if v:
                    sits.append((text, st, v))

    def one(k):
        text, st, v = sits[k]
        wd = os.path.join(base, f't{k}')
        os.makedirs(os.path.join(wd, 'tmp'))
        inf = os.path.join(wd, 'in.smt2')
        with open(inf, 'w') as f:
            f.write(text)
        env = dict(os.environ, PYTHONPATH=common.REPO, TMPDIR=os.path.join(
            wd, 'tmp'), PYTHONDONTWRITEBYTECODE='1', TERM='xterm')
        m, sl = pty.openpty()
        p = subprocess.Popen(
            [common.PY, '-m', 'ddsmt', '--strategy', st, '-j', '2'] + v +
            [inf, os.path.join(wd, 'out.smt2'), cmd],
            cwd=wd, env=env, stdin=subprocess.DEVNULL, stdout=sl, stderr=sl,
            start_new_session=True)
        os.close(sl)
        out = b''
        t0 = time.time()
        limit = runs.time_limit(120)
        while time.time() - t0 < limit:
            r, _, _ = select.select([m], [], [], 0.5)
            if r:
                try:
                    d = os.read(m, 65536)
                except OSError:
                    break
                if not d:
                    break
                out += d
            elif p.poll() is not None:
                break
        # (the terminal reports EOF/EIO when the last holder closes it,
        # which is a moment before the process can be reaped)
        try:
            p.wait(timeout=max(10.0, limit - (time.time() - t0)))
        except subprocess.TimeoutExpired:
            pass
        hung = p.poll() is None
        if hung:
            try:
                os.killpg(p.pid, 9)
            except OSError:
                pass
        p.wait()
        os.close(m)
        return p.returncode, hung, out.decode('utf-8', 'replace')

    from concurrent.futures import ThreadPoolExecutor
    with ThreadPoolExecutor(8) as ex:
        res = list(ex.map(one, range(len(sits))))
    for (text, st, v), (rc, hung, out) in zip(sits, res):
        rep.count()
        rep.nontrivial('tty:' + json.dumps([text, st, v]))
        sig = f'terminal:{st}:{"".join(v)}:{json.dumps(text)}'
        rp = {'terminal': True, 'input': text, 'strategy': st, 'verbosity': v}
        if hung:
            rep.violation('hang-' + sig, f'no exit on a terminal: input '
                          f'{text!r}, --strategy {st} {v}', rp)
        elif 'Traceback (most recent call last)' in out:
            last = [ln for ln in out.replace('\r', '\n').splitlines()
                    if ln.strip()][-1][:200]
            rep.violation('traceback-' + sig,
                          f'internal error on a terminal (progress display '
                          f'on): input {text!r}, --strategy {st} {v}: {last}',
                          rp)
        elif rc != 0:
            rep.violation('status-' + sig,
                          f'exit status {rc} for a run that completed: input '
                          f'{text!r}, --strategy {st} {v}', rp)
    rep.cov['terminal_runs'] = len(sits)


def main():
    a = common.std_args()
    ddsmt_env.load()
    rep = common.Report('C04', 'model_checking', a.tier)
    rep.cov['rule'] = (
        '(a) every shape of GenShapes.tla (special identifier x arity <= '
        '2/3 x child shapes) at top level, inside an assert and as the term '
        'of a let binding, replayed '
        'through the unguarded main-process code paths; (b) every situation '
        'of Main.tla (fault x entry point x strategy) through the real CLI; '
        '(c) sampled shapes end to end; (d) every command of GenEdits.tla '
        '(well-formed declaration / definition / binder forms with one or '
        'two subtrees erased or replaced) through the same code paths; '
        'non-trivial = shapes with at least one child; distinct by (shape, '
        'placement)')
    rep.assumptions += [
        'special identifiers are collected from quoted strings of the sources',
        'exceptions raised inside one mutator are fine when ddSMT catches and '
        'logs them (the hierarchical Producer); ddmin generates tasks '
        'unguarded in the main process, so an exception there is a failure',
    ]
    r = random.Random(common.seed() + 4)
    # ---- model: usage matrix ---------------------------------------------
    sits = []
    for st in common.tlc_generate(rep, 'Main', 'MC_Main.cfg', timeout=300):
        sits.append({'flag': st.get('flag', 'none'),
                     'fault': st['fault'], 'entry': st['entry'],
                     'strategy': st['strategy'], 'outcome': st['outcome'],
                     'status': st['status']})
    _t0 = time.time()
    def _lap(what):
        if os.environ.get('VERIF_DEBUG'):
            print(f'[lap] {what}: {time.time() - _t0:.1f}s', file=sys.stderr)
    # ---- model: shapes ------------------------------------------------------
    heads = collect_heads()
    hpath = os.path.join(common.subscratch('shapes'), 'ShapeHeads.tla')
    with open(hpath, 'w') as f:
        f.write('---- MODULE ShapeHeads ----\nHeads == {' +
                ', '.join(json.dumps(h) for h in heads) + '}\n')
        f.write('NestHeads == {' + ', '.join(json.dumps(h) for h in NEST) +
                '}\n====\n')
    shapes = []
    cfg = 'GenShapes_q.cfg' if a.tier == 'quick' else 'GenShapes_t.cfg'
    for st in common.tlc_generate(rep, 'GenShapes', cfg, timeout=1800,
                                  files=[hpath]):
        shapes.append((st['head'], [tuple(k) for k in st['kids']]))
    if a.replay:
        with open(a.replay) as f:
            rp = json.load(f)['replay']
        shapes = [(rp['head'], [tuple(k) for k in rp['kids']])]
        sits = []
    if os.environ.get('VERIF_C04_ONLY') == 'usage':
        shapes = shapes[:5]
    if a.tier == 'quick' and not a.replay:
        # all heads with arity <= 1; arity 2 for a seeded tenth of the heads
        keep = set(r.sample(heads, max(1, len(heads) // 10)))
        shapes = [s for s in shapes if len(s[1]) <= 1 or s[0] in keep]
    if a.tier == 'thorough' and not a.replay:
        # all heads with arity <= 2; arity 3 (14^3 child shapes per head) for
        # a seeded twentieth of the heads - the full product is days of work
        keep = set(r.sample(heads, max(1, len(heads) // 20)))
        shapes = [s for s in shapes if len(s[1]) <= 2 or s[0] in keep]
    qk = a.tier == 'quick'
    chunks = [[(h, k, qk) for h, k in shapes[i::64]] for i in range(64)]
    with multiprocessing.get_context('fork').Pool(common.NCPU) as pool:
        res = pool.map(shapes_worker, chunks)
    nshape = 0
    for ch in res:
        for head, kids, placement, text, bad in ch:
            rep.count()
            nshape += 1
            if kids:
                rep.nontrivial(common.digest([head, kids, placement]))
            for fn, exc, msg in bad:
                kinds = '+'.join(k[0] for k in kids)
                rep.violation(
                    f'{fn}:{exc}:head={head}:kids={kinds}:{placement}',
                    f'{fn} raises {exc}: {msg[:120]} on '
                    f'{shape_text(head, kids)!r} ({placement})',
                    {'head': head, 'kids': [list(k) for k in kids],
                     'text': text})
    _lap('shapes')
    # ---- model: edited commands (GenEdits.tla) ------------------------------
    import semconform as SC
    cmds = set()
    if not a.replay:
        ecfg = 'MC_GenEdits_q.cfg' if a.tier == 'quick' else 'MC_GenEdits_t.cfg'
        for st in common.tlc_generate(rep, 'GenEdits', ecfg, timeout=1800):
            cmds.add(SC.render(SC.dec(st['t'])))
    elif rp.get('command'):
        cmds.add(rp['command'])
    cmds = sorted(cmds)
    if os.environ.get('VERIF_C04_ONLY') == 'usage':
        cmds = cmds[:5]
    with multiprocessing.get_context('fork').Pool(common.NCPU) as pool:
        eres = pool.map(edits_worker, [cmds[i::64] for i in range(64)])
    for ch in eres:
        for cmd, text, bad in ch:
            rep.count()
            nshape += 1
            rep.nontrivial(common.digest(['edit', cmd]))
            for fn, exc, msg in bad:
                rep.violation(
                    f'{fn}:{exc}:command={cmd}',
                    f'{fn} raises {exc}: {msg[:120]} on the command {cmd!r}',
                    {'head': None, 'kids': [], 'command': cmd, 'text': text})
    rep.cov['edited_commands'] = len(cmds)
    for t in ODD_TEXTS:
        rep.count()
        bad, text = main_process_paths(t, 'raw')
        for fn, exc, msg in bad:
            rep.violation(f'{fn}:{exc}:text={json.dumps(t)}',
                          f'{fn} raises {exc}: {msg[:120]} on text {t!r}',
                          {'head': None, 'kids': [], 'text': t})
    rep.cov['traces_validated_against_impl'] = nshape + len(ODD_TEXTS)
    rep.cov['shapes_replayed'] = nshape
    rep.cov['special_identifiers'] = len(heads)
    rep.sample({'shape': shape_text(*shapes[len(shapes) // 2])
                if shapes else None})
    _lap('edits')
    # ---- (b) usage matrix through the CLI -------------------------------------
    from concurrent.futures import ThreadPoolExecutor
    runs.calibrate()
    with ThreadPoolExecutor(8) as ex:
        urs = list(ex.map(lambda kv: usage_run(*kv), enumerate(sits)))
    for sit, ur in zip(sits, urs):
        rep.count()
        rep.nontrivial('usage:' + json.dumps(sit, sort_keys=True))
        sig = f'{sit["fault"]}:{sit["entry"]}' + (
            ':' + sit['flag'] if sit.get('flag', 'none') != 'none' else '')
        rp = {'situation': sit}
        if ur.timed_out:
            rep.violation(f'usage-hang:{sig}', f'no exit within the time limit: {sit}',
                          rp)
            continue
        if 'Traceback (most recent call last)' in ur.stderr:
            rep.violation(
                f'usage-traceback:{sig}',
                f'internal error instead of a diagnostic for {sit}: '
                f'{ur.stderr.strip().splitlines()[-1][:200]}', rp)
            continue
        if ur.status != sit['status']:
            rep.violation(
                f'exit-status:{sig}',
                f'exit status {ur.status}, expected {sit["status"]} '
                f'({sit["outcome"]}) for {sit}; stdout '
                f'{ur.stdout.strip()[-120:]!r}', rp)
        if sit['outcome'] in ('usage', 'nomatch', 'noexec'):
            ran = len(ur.cmdlog)
            allowed = 0 if sit['outcome'] == 'usage' else 1
            if ran > allowed:
                rep.violation(
                    f'ran-after-{sit["outcome"]}:{sig}',
                    f'the command was run {ran} times although the run must '
                    f'stop {"before any run" if allowed == 0 else "after the golden run"}'
                    f' for {sit}', rp)
        if sit['outcome'] in ('usage', 'interrupted'):
            lines = [x for x in (ur.stdout + ur.stderr).splitlines()
                     if 'rror' in x or 'interrupted' in x]
            if len(lines) != 1:
                rep.violation(
                    f'diagnostic:{sig}',
                    f'expected a one-line diagnostic for {sit}, got '
                    f'{lines[:3]}', rp)
    rep.cov['usage_situations'] = len(sits)
    _lap('usage')
    # ---- (c) end to end on sampled shapes ---------------------------------------
    import stratcheck as S
    n = 12 if a.tier == 'quick' else 200
    cfgs = []
    pool_ = [s for s in shapes if s[1]]
    for k in range(min(n, len(pool_))):
        head, kids = r.choice(pool_)
        text = PRELUDE + shape_text(head, kids) + '\n(assert ' + \
            shape_text(head, kids) + ')\n(check-sat)\n'
        spec = {'mode': 'contains', 'markers': [head]}
        opts = ['--strategy', ('ddmin', 'hierarchical', 'hybrid')[k % 3],
                '-j', str((1, 2)[k % 2])]
        cfgs.append((text, spec, opts, {'n': k}))
    items = S.execute(cfgs, label='c04e2e',
                      timeout=runs.time_limit(200)) if not a.replay else []
    for it in items:
        rep.count()
        ur = it.run
        sig = common.digest(S.describe(it))
        head = it.spec['markers'][0]
        if 'Traceback (most recent call last)' in ur.stderr and not any(
                e['ev'] == 'exit' and e.get('exception') is None
                for e in ur.events):
            last = ur.stderr.strip().splitlines()[-1][:160]
            rep.violation(
                f'e2e-internal-error:head={head}:{last.split(":")[0]}',
                f'ddSMT aborted with an internal error on {it.text!r} '
                f'(options {it.opts}): {last}', S.replay_obj(it))
        elif ur.status not in (0, 1) or ur.timed_out:
            rep.violation(f'e2e-status:head={head}',
                          f'exit status {ur.status} timed_out={ur.timed_out}',
                          S.replay_obj(it))
        else:
            completed = any(e['ev'] == 'reduce_end' for e in ur.events)
            if (ur.status == 0) != completed:
                rep.violation(
                    f'e2e-status-vs-completion:head={head}',
                    f'exit status {ur.status} but completed={completed}',
                    S.replay_obj(it))
    S.cleanup(items)
    terminal_runs(rep)
    return rep.finish()


if __name__ == '__main__':
    common.main_wrapper(main)
