"""C08 - the reader tokenises SMT-LIB text as the standard prescribes.

Decided by: specs/Lexer.tla.  TLC enumerates every in-scope text up to the
configured length over the class alphabet (checking the model's own sanity
invariants on the way) and dumps the state graph; every final state
(text, expected tokens, expected forest) is replayed into
ddsmt.nodeio.parse_smtlib.  The independent reference reader of /verif is
validated against the same dump.
"""
import argparse
import json
import os
import sys

sys.path.insert(0, os.path.join(os.path.dirname(os.path.abspath(__file__)),
                                '..', 'lib'))
import common  # noqa: E402
import tlaval  # noqa: E402
import refreader  # noqa: E402
import ddsmt_env  # noqa: E402

CH = {
    'LP': '(', 'RP': ')', 'SP': ' ', 'TAB': '\t', 'LF': '\n', 'CR': '\r',
    'DQ': '"', 'BAR': '|', 'SEMI': ';', 'A': 'b', 'D': '0', 'HASH': '#',
    'COLON': ':', 'MINUS': '-', 'BS': '\\'
}

CONFIGS = {
    'quick': [('MC_Lexer_full5.cfg', 900)],
    'thorough': [('MC_Lexer_full6.cfg', 3000), ('MC_Lexer_red8.cfg', 3000)],
}


def conc(seq):
    return ''.join(CH[c] for c in seq)


def nested(nodes):
    """TLA+ node records -> nested lists of str."""
    out = []
    for n in nodes:
        if n['t'] == 'L':
            out.append(conc(n['d']))
        else:
            out.append(nested(n['k']))
    return out


def classes(text):
    """Which lexical classes meet in the text (for the non-triviality rule)."""
    toks = refreader.lex(text)
    kinds = set()
    for t in toks:
        if t in '()':
            kinds.add(t)
        elif t[0] == ';':
            kinds.add('comment')
        elif t[0] == '"':
            kinds.add('string')
        elif t[0] == '|':
            kinds.add('quoted')
        else:
            kinds.add('atom')
    return kinds


def run_impl(nodeio, text):
    try:
        exprs = list(nodeio.parse_smtlib(text))
    except Exception as e:  # noqa
        return ('exception', type(e).__name__ + ': ' + str(e))
    try:
        return ('ok', refreader.forest_to_nested(exprs))
    except Exception as e:  # noqa
        return ('exception', 'result not a forest of Nodes: ' + repr(e))


def check_text(nodeio, rep, text, exp_forest, exp_toks):
    rep.count()
    kinds = classes(text)
    if len(kinds) >= 2:
        rep.nontrivial(text)
    # the reference reader must agree with the specification
    try:
        rtoks, rforest = refreader.read(text)
    except refreader.ReadError as e:
        raise common.MachineryError(
            f'reference reader rejects in-scope text {text!r}: {e}')
    if rforest != exp_forest or rtoks != exp_toks:
        raise common.MachineryError(
            f'reference reader disagrees with Lexer.tla on {text!r}: '
            f'{rforest!r} vs {exp_forest!r}')
    st, got = run_impl(nodeio, text)
    if st == 'ok' and got == exp_forest:
        return True
    rep.violation(
        'text=' + json.dumps(text),
        f'parse_smtlib({text!r}) -> {got!r}; the standard reader gives '
        f'{exp_forest!r}', {
            'text': text,
            'expected_forest': exp_forest,
            'got': got if st == 'ok' else None,
            'exception': got if st != 'ok' else None
        })
    return False


def replay(path):
    ddsmt_env.load()
    from ddsmt import nodeio
    with open(path) as f:
        r = json.load(f)['replay']
    st, got = run_impl(nodeio, r['text'])
    print('text     :', repr(r['text']))
    print('expected :', r['expected_forest'])
    print('got      :', got)
    if st == 'ok' and got == r['expected_forest']:
        print('no longer failing')
        return 0
    print('VIOLATION property=C08 replay=' + path)
    return 1


def main():
    ap = argparse.ArgumentParser()
    ap.add_argument('--tier', default=os.environ.get('VERIF_TIER', 'quick'))
    ap.add_argument('--replay')
    a = ap.parse_args()
    if a.replay:
        return replay(a.replay)
    ddsmt_env.load()
    from ddsmt import nodeio
    rep = common.Report('C08', 'model_checking', a.tier)
    rep.cov['rule'] = (
        'every text accepted by Lexer.tla (in-scope: balanced, complete, '
        'atom-like lexemes separated) up to the configured length, one case '
        'per final state of the TLC state graph; non-trivial = at least two '
        'different lexeme classes (parenthesis, atom, string, quoted symbol, '
        'comment) occur; distinct by text')
    failing_shortest = {}
    for cfg, tmo in CONFIGS[a.tier]:
        dump = os.path.join(common.subscratch('dump'), cfg + '.out')
        res = common.run_tlc('Lexer', cfg, dump=dump, timeout=tmo, name=cfg)
        if res.violated:
            raise common.MachineryError(
                f'Lexer.tla violates its own sanity property {res.violated}:\n'
                + common.tlc_counterexample(res.output))
        rep.add_tlc(res, cfg)
        n = 0
        for st in tlaval.iter_dump(dump + '.dump', prefilter='done = TRUE'):
            if st.get('done') is not True:
                continue
            text = conc(st['text'])
            exp_forest = nested(st['stack'][0])
            exp_toks = [conc(t) for t in st['toks']]
            ok = check_text(nodeio, rep, text, exp_forest, exp_toks)
            n += 1
            if n % 4000 == 1:
                rep.sample({
                    'text': text,
                    'expected_tokens': exp_toks,
                    'expected_forest': exp_forest,
                    'impl_agrees': ok
                })
        os.remove(dump + '.dump')
        rep.cov['traces_validated_against_impl'] += n
    rep.cov['exhaustive'] = True
    rep.assumptions += [
        'class representatives stand for their class: letter b, digit 0; '
        'the reader under test does not special-case other members',
        'texts longer than the bound are not enumerated',
        'comment leaves are compared after stripping trailing line breaks '
        '(the property does not fix whether the terminator belongs to the leaf)',
    ]
    return rep.finish()


if __name__ == '__main__':
    common.main_wrapper(main)
