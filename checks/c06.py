"""C06 - the output file is a complete accepted input at every instant.

Model: specs/OutFile.tla - a POSIX file-system model (open/truncate, write,
close, rename, unlink) with the state invariant OutComplete; TLC shows that a
temporary-file-plus-rename writer satisfies it and that truncate-then-fill
violates it (the second run is the discrimination self-test of the model).
Binding:
 (a) code -> spec: real runs under `strace -ff`; the system calls on the
     output path and its sibling temporary files are replayed by TLC through
     the model's system-call actions (TraceOutFile.tla): OutComplete is
     evaluated after EVERY system call, i.e. at every crash (SIGKILL) and
     reader point;
 (b) fault enumeration: an interrupt is injected at the n-th low-level write
     of the output renderer, for every n of a rewrite (what SIGINT at that
     point does); afterwards the file must hold a complete accepted input
     (the last accepted one), the input file must be unchanged, the temporary
     directory gone and no ddSMT process left;
 (c) real SIGINT / SIGKILL at seeded random times.
"""
import json
import os
import random
import re
import signal
import subprocess
import sys
import time

sys.path.insert(0, os.path.join(os.path.dirname(os.path.abspath(__file__)),
                                '..', 'lib'))
import common  # noqa: E402
import corpus  # noqa: E402
import refreader  # noqa: E402
import runs  # noqa: E402
import tracecheck  # noqa: E402

NSTRACE = {'quick': 6, 'thorough': 40}
NFAULT = {'quick': 14, 'thorough': 120}
NSIG = {'quick': 6, 'thorough': 60}

INPUT = corpus.FLAT
SPEC = {'mode': 'contains', 'markers': ['check-sat', '3', '7']}

_CALL = re.compile(r'^(\w+)\((.*)\)\s+=\s+(-?\d+)')


def unhex(s):
    return bytes(int(x, 16) for x in re.findall(r'\\x([0-9a-f]{2})', s))


def parse_strace(dirpath, outfile):
    """-> list of events (from the per-thread files of strace -ff) on the
    output path, on files of the output directory that look like its
    temporary siblings, and on any file that is later renamed into the output
    directory (wherever it was written)."""
    outdir = os.path.dirname(outfile)

    def absn(p):
        return os.path.normpath(p if os.path.isabs(p) else
                                os.path.join(outdir, p))

    def near_out(path):
        base = os.path.basename(path)
        if os.path.dirname(path) != outdir:
            return False
        if base in ('events.ndjson', 'cmd.log', 'spec.json', 'cmd_cc.log',
                    'spec_cc.json'):
            return False
        return (path == outfile or base.startswith(os.path.basename(outfile))
                or 'tmp' in base)

    per_thread = []
    renamed_src = set()
    for fn in sorted(os.listdir(dirpath)):
        fds = {}
        evs = []
        with open(os.path.join(dirpath, fn), errors='replace') as f:
            for line in f:
                m = _CALL.match(line)
                if not m:
                    continue
                call, args, ret = m.group(1), m.group(2), int(m.group(3))
                if call in ('openat', 'open', 'creat'):
                    pm = re.search(r'"((?:\\x[0-9a-f]{2})*)"', args)
                    if not pm or ret < 0:
                        continue
                    path = absn(unhex(pm.group(1)).decode('utf-8', 'replace'))
                    wr = ('O_WRONLY' in args or 'O_RDWR' in args
                          or call == 'creat')
                    if not wr or path.startswith(('/dev/', '/proc/')):
                        continue
                    fds[ret] = path
                    evs.append({'op': 'open', 'path': path, 'fd': ret,
                                'trunc': 'O_TRUNC' in args or call == 'creat'})
                elif call == 'write':
                    fd = int(args.split(',', 1)[0])
                    if fd in fds and ret >= 0:
                        dm = re.search(r'"((?:\\x[0-9a-f]{2})*)"', args)
                        data = unhex(dm.group(1))[:ret] if dm else b''
                        evs.append({'op': 'write', 'fd': fd, 'path': fds[fd],
                                    'data': list(data)})
                elif call == 'close':
                    fd = int(args.strip() or -1)
                    if fd in fds:
                        evs.append({'op': 'close', 'fd': fd,
                                    'path': fds.pop(fd)})
                elif call in ('rename', 'renameat', 'renameat2'):
                    ps = [unhex(x).decode('utf-8', 'replace') for x in
                          re.findall(r'"((?:\\x[0-9a-f]{2})*)"', args)]
                    if len(ps) >= 2 and ret == 0:
                        ps = [absn(p) for p in ps[:2]]
                        if near_out(ps[1]):
                            renamed_src.add(ps[0])
                            evs.append({'op': 'rename', 'src': ps[0],
                                        'dst': ps[1]})
                elif call in ('unlink', 'unlinkat'):
                    pm = re.search(r'"((?:\\x[0-9a-f]{2})*)"', args)
                    if pm and ret == 0:
                        p = absn(unhex(pm.group(1)).decode('utf-8', 'replace'))
                        evs.append({'op': 'unlink', 'path': p})
        per_thread.append(evs)

    def relevant(e):
        if e['op'] == 'rename':
            return True
        return near_out(e['path']) or e['path'] in renamed_src

    events = []
    for evs in per_thread:
        keep = [e for e in evs if relevant(e)]
        if any(e['op'] in ('open', 'rename') for e in keep):
            for e in keep:
                if e['op'] in ('write', 'close'):
                    e = {k: v for k, v in e.items() if k != 'path'}
                events.append(e)
    return events


def other_filesystem_dir(ref):
    """A writable directory on a filesystem other than the one holding `ref`
    (a temporary directory elsewhere makes a rename fall back to copying), or
    None."""
    try:
        dev = os.stat(ref).st_dev
    except OSError:
        return None
    for cand in ('/dev/shm', '/tmp', '/run/user/%d' % os.getuid(), '/var/tmp'):
        try:
            if os.path.isdir(cand) and os.access(cand, os.W_OK) and \
                    os.stat(cand).st_dev != dev:
                return cand
        except OSError:
            continue
    return None


def strace_run(k, jobs, strategy):
    wd = common.subscratch(f'c06-strace{k}')
    sdir = os.path.join(wd, 'strace')
    os.makedirs(sdir, exist_ok=True)
    tmpdir = None
    if k % 3 == 2:
        # the temporary directory on another filesystem than the output file
        other = other_filesystem_dir(wd)
        if other:
            import tempfile
            tmpdir = tempfile.mkdtemp(prefix='ddsmt-verif-c06.', dir=other)
    # run through runs.run_ddsmt with an strace prefix: patch argv via hook
    r = runs.run_ddsmt(
        wd, INPUT, dict(SPEC, delay_ms=1), ['--strategy', strategy, '-j',
                                            str(jobs)],
        timeout=300, prefix=['strace', '-ff', '-o',
                             os.path.join(sdir, 't'), '-xx', '-s', '200000',
                             '-e', 'trace=openat,open,creat,write,close,'
                             'rename,renameat,renameat2,unlink,unlinkat'],
        tmpdir=tmpdir)
    if tmpdir:
        import shutil
        shutil.rmtree(tmpdir, ignore_errors=True)
    evs = parse_strace(sdir, r.outfile)
    accepted = [list(e['text'].encode()) for e in r.events
                if e['ev'] == 'write' and e['text'] is not None]
    paths = sorted({e.get('path') for e in evs if e.get('path')} |
                   {e.get('src') for e in evs if e.get('src')} |
                   {e.get('dst') for e in evs if e.get('dst')} | {r.outfile})
    fds = sorted({e['fd'] for e in evs if 'fd' in e})
    rec = {'events': evs, 'accepted': accepted, 'paths': paths, 'fds': fds,
           'out': r.outfile, 'preexisting': False, 'initial': []}
    return r, rec


def survivors(run_id):
    out = []
    for pid in os.listdir('/proc'):
        if not pid.isdigit():
            continue
        try:
            with open(f'/proc/{pid}/environ', 'rb') as f:
                if f'VERIF_RUN_ID={run_id}'.encode() in f.read():
                    out.append(int(pid))
        except OSError:
            continue
    return out


def post_conditions(rep, r, what, sig, kill=False):
    """After an interrupted / killed run."""
    accepted_toks = [c['toks'] for c in r.cmdlog if c['verdict']]
    rp = {'input': INPUT, 'spec': SPEC, 'what': what}
    if r.out_text is not None:
        try:
            ot = refreader.lex(r.out_text)
        except refreader.ReadError:
            ot = None
        if ot is None or ot not in accepted_toks:
            rep.violation(
                f'file-incomplete-after-{what}:{sig}',
                f'after {what} the output file holds {r.out_text!r}, which is '
                f'not the text of an accepted input', rp)
        elif not kill:
            # after an interrupt: the LAST accepted (adopted) input
            writes = [e for e in r.events if e['ev'] == 'write'
                      and e.get('toks') is not None]
            adopted = [e['base'] for e in r.events if e['ev'] == 'update'] + \
                      [e['cand'] for e in r.events if e['ev'] == 'recv'
                       and e.get('ok') and e.get('cand')]
            complete = [w['toks'] for w in writes]
            if complete and ot not in complete[-2:] and ot not in adopted[-2:]:
                rep.violation(
                    f'file-not-last-accepted-after-{what}:{sig}',
                    f'after {what} the file holds {r.out_text!r}, not the '
                    f'last accepted input', rp)
    if r.timed_out:
        rep.violation(f'hang-after-{what}:{sig}',
                      f'ddSMT did not exit within the time limit after {what}',
                      rp)
    if r.in_sha_after != r.in_sha_before:
        rep.violation(f'input-modified-after-{what}:{sig}',
                      'the input file was modified', rp)
    if not kill:
        left = [x for x in r.tmp_left if x.startswith('ddsmt-')]
        if left:
            rep.violation(f'tmpdir-left-after-{what}:{sig}',
                          f'temporary directory left behind: {left}', rp)
        if r.status == 0 and 'interrupted' in r.stdout:
            rep.violation(f'status-zero-after-{what}:{sig}',
                          'exit status 0 after an interrupt', rp)


def main():
    a = common.std_args()
    rep = common.Report('C06', 'fault_enumeration', a.tier)
    rep.cov['rule'] = (
        'model: all states of OutFile.tla for both writer protocols; (a) '
        'strace runs: every system call on the output path is a crash/reader '
        'point judged by TLC (TraceOutFile.tla); (b) an interrupt injected at '
        'the n-th low-level write of a rewrite, for every n; (c) SIGINT / '
        'SIGKILL at seeded times; one evaluation per crash point; '
        'non-trivial = crash points after the first acceptance; distinct by '
        '(run, point)')
    rep.assumptions += [
        'SIGINT is modelled at Python level by KeyboardInterrupt raised at a '
        'write call of the renderer; SIGKILL by the prefix of the system-call '
        'trace',
        'power loss / fsync ordering is not modelled',
    ]
    r = random.Random(common.seed() + 6)
    # ---- model -----------------------------------------------------------
    res = common.run_tlc('OutFile', 'MC_OutFile_rename.cfg', timeout=600)
    if res.violated:
        raise common.MachineryError('OutFile.tla: rename protocol violates ' +
                                    str(res.violated))
    rep.add_tlc(res, 'MC_OutFile_rename.cfg')
    res = common.run_tlc('OutFile', 'MC_OutFile_truncate.cfg', timeout=600)
    if 'OutComplete' not in res.violated:
        raise common.MachineryError(
            'OutFile.tla does not reject truncate-then-fill (vacuous model)')
    rep.add_tlc(res, 'MC_OutFile_truncate.cfg (expected violation)')
    # ---- (a) strace traces -------------------------------------------------
    recs, rs = [], []
    from concurrent.futures import ThreadPoolExecutor
    with ThreadPoolExecutor(6) as ex:
        sr = list(ex.map(lambda k: strace_run(
            k, (1, 2, 4)[k % 3], ('hierarchical', 'ddmin', 'hybrid')[k % 3]),
            range(NSTRACE[a.tier])))
    for k, (rr, rec) in enumerate(sr):
        if rr.status != 0:
            raise common.MachineryError(
                f'strace run failed: {rr.stderr[-500:]}')
        if not rec['events']:
            raise common.MachineryError('no system calls on the output path '
                                        'were recorded')
        recs.append(rec)
        rs.append(rr)
        rep.count(len(rec['events']))
        for i in range(len(rec['events'])):
            rep.nontrivial(f'strace{k}:{i}')
    vs = tracecheck.validate('TraceOutFile', 'TraceOutFile.cfg', recs)
    rep.cov['traces_validated_against_impl'] = len(recs)
    for k, (v, rec, rr) in enumerate(zip(vs, recs, rs)):
        rep.cov['states'] += v[-2][1]
        rep.cov['transitions'] += v[-2][0]
        if v[0] == 'invariant':
            ops = [e['op'] + (':trunc' if e.get('trunc') else '')
                   for e in rec['events'][:8]]
            rep.violation(
                f'syscall-trace-violates-{v[1]}',
                f'the system calls of a real run violate {v[1]}: the output '
                f'path does not hold a complete accepted text after every '
                f'call (first calls: {ops})',
                {'input': INPUT, 'spec': SPEC, 'what': 'strace'})
        elif v[0] != 'accept':
            raise common.MachineryError(f'TraceOutFile: {v}')
    # ---- (a') the file is rewritten AT every acceptance ----------------------
    # (an interrupt between an acceptance and its write would leave an older
    # input in the file): hierarchical / hybrid runs with slow sibling checks,
    # validated by TLC (TraceHier: no further result is consumed between an
    # adoption and the write of the adopted input)
    import stratcheck as S
    wcfgs = []
    for k in range(4 if a.tier == 'quick' else 24):
        st = ('hierarchical', 'hybrid')[k % 2]
        wcfgs.append((INPUT, dict(SPEC, delay_ms=30, delay_seed=k),
                      ['--strategy', st, '-j', str((2, 3)[k % 2])],
                      {'strategy': st, 'n': f'w{k}'}))
    witems = S.validate(rep, S.execute(wcfgs, label='c06w'))
    for it in witems:
        rep.count()
        if it.run.timed_out or it.run.status != 0:
            continue
        S.trace_violations(rep, it, {'adoption-not-written-to-file',
                                     'write-without-adoption',
                                     'write-without-accepted-candidate'},
                           prefix='write-not-at-acceptance:')
    S.cleanup(witems)
    rep.sample({'strace_events': [
        {k2: (v2 if k2 != 'data' else f'<{len(v2)} bytes>')
         for k2, v2 in e.items()} for e in recs[0]['events'][:6]]})
    # ---- (b) interrupt at the n-th low-level write -------------------------
    wd = common.subscratch('c06-probe')
    probe = runs.run_ddsmt(wd, INPUT, SPEC, ['--strategy', 'hybrid', '-j', '2'],
                           env_extra={'VERIF_FAULT': 'outwrite:1000000'})
    counts = [e['n'] for e in probe.events if e['ev'] == 'fault_count']
    if not counts:
        raise common.MachineryError('probe run wrote no output file')
    nwrites = counts[-1]
    # how long a complete run takes on this machine right now: "did not exit"
    # is judged against a generous multiple of it, never against a constant
    # (a loaded machine must not look like a hang)
    limit = int(180 + 15 * probe.wall)
    rep.cov['probe_run_wall_s'] = round(probe.wall, 1)
    rep.cov['low_level_writes_in_probe_run'] = nwrites
    rep.cov['rewrites_in_probe_run'] = len(counts)
    points = list(range(1, nwrites + 1))
    if a.tier == 'quick':
        points = sorted(r.sample(points, NFAULT['quick']))
    else:
        points = points[:NFAULT['thorough']]
    def fault_run(n):
        rid = f'f{n}-{time.time_ns()}'
        wd = common.subscratch(f'c06-fault{n}')
        rr = runs.run_ddsmt(wd, INPUT, SPEC,
                            ['--strategy', ('hybrid', 'hierarchical',
                                            'ddmin')[n % 3], '-j',
                             str((1, 2)[n % 2])],
                            env_extra={'VERIF_FAULT': f'outwrite:{n}',
                                       'VERIF_RUN_ID': rid}, timeout=limit)
        time.sleep(0.3)
        left = survivors(rid)
        if left:
            time.sleep(1.5)
            left = survivors(rid)
        for p in left:
            try:
                os.kill(p, signal.SIGKILL)
            except OSError:
                pass
        return n, rr, left

    with ThreadPoolExecutor(6) as ex:
        fr = list(ex.map(fault_run, points))
    for n, rr, left in fr:
        rep.count()
        fired = any(e['ev'] == 'fault' for e in rr.events)
        if not fired:
            continue
        rep.nontrivial(f'fault:{n}')
        post_conditions(rep, rr, 'interrupt-during-write', 'write-call')
        if left:
            rep.violation('process-left-after-interrupt',
                          f'processes {left} survive the interrupted run',
                          {'input': INPUT, 'spec': SPEC, 'what': 'interrupt'})
    # ---- (c) real signals at seeded times -----------------------------------
    for k in range(NSIG[a.tier]):
        rep.count()
        kill = (k % 2 == 1)
        delay = 0.5 + r.random() * 1.2
        rid = f's{k}-{time.time_ns()}'
        wd = common.subscratch(f'c06-sig{k}')

        def hook(p, run, delay=delay, kill=kill):
            time.sleep(delay)
            try:
                os.killpg(p.pid, signal.SIGKILL if kill else signal.SIGINT)
            except OSError:
                pass

        rr = runs.run_ddsmt(wd, INPUT, dict(SPEC, delay_ms=20),
                            ['--strategy', 'hybrid', '-j', '2'],
                            env_extra={'VERIF_RUN_ID': rid}, popen_hook=hook,
                            timeout=limit)
        if any(e['ev'] == 'write' for e in rr.events):
            rep.nontrivial(f'signal:{k}')
        post_conditions(rep, rr, 'SIGKILL' if kill else 'SIGINT', 'signal',
                        kill=kill)
        for p in survivors(rid):
            try:
                os.kill(p, signal.SIGKILL)
            except OSError:
                pass
    return rep.finish()


if __name__ == '__main__':
    common.main_wrapper(main)
