"""C10 - runs exceeding the time or memory limit are rejected and never stall
ddSMT.

Model: specs/Exec.tla - one execution of the command with limits in logical
time, six child behaviours (quick, sleep, spin, alloc, signal, grandchild
holding the pipes); TLC checks NoUnboundedWait (liveness: every execution
returns), TotalTimeBound, KilledIsGone, HangsTimeOut.  Binding (fault
enumeration with real kernel limits): ddSMT is run on inputs in which removing
a marker makes the command hang / spin / allocate without bound / kill itself
/ leave a grandchild holding its pipes, for all placements of <= 3 fault kinds
x strategy x -j 1/2 x explicit or derived time limit (x --memout where the
allocator is present).  Observed: every faulty candidate is rejected (the
output keeps every marker), wall time <= tests x limit + slack, no command
process survives, exit status 0; the recorded executions (limit used, timed
out, verdict) are judged by TLC against Exec.tla's TimeoutVerdictOK /
DerivedLimitOK.
"""
import itertools
import json
import os
import random
import re
import signal
import sys
import time

sys.path.insert(0, os.path.join(os.path.dirname(os.path.abspath(__file__)),
                                '..', 'lib'))
import common  # noqa: E402
import refreader  # noqa: E402
import runs  # noqa: E402

FAULTCMD = os.path.join(common.VERIF, 'build', 'faultcmd')
KINDS = {'hang': 'h1', 'spin': 's1', 'alloc': 'a1', 'signal': 'k1',
         'grand': 'g1', 'slow': 'w1', 'mmap': 'm1'}
# not part of the enumerated placements: a command that maps its memory in its
# very first instants (see known finding C10-memout-race)
EXTRA_KINDS = {'mmapfast': 'f1'}
KINDS_ALL = dict(KINDS, **EXTRA_KINDS)


def build_cmd():
    if not os.path.exists(FAULTCMD) or os.path.getmtime(FAULTCMD) < \
            os.path.getmtime(os.path.join(common.VERIF, 'cmds', 'faultcmd.c')):
        import subprocess
        os.makedirs(os.path.dirname(FAULTCMD), exist_ok=True)
        subprocess.run(['cc', '-O1', '-o', FAULTCMD,
                        os.path.join(common.VERIF, 'cmds', 'faultcmd.c')],
                       check=True)


def make_input(kinds, r):
    lines = ['(set-logic QF_LIA)', '(declare-const x Int)']
    body = [f'(assert {KINDS_ALL[k]})' for k in kinds]
    body += ['(assert (> x 0))', '(assert (< x 9))', '(assert true)']
    r.shuffle(body)
    return '\n'.join(lines + body + ['(check-sat)']) + '\n'


def run_one(k, cfg):
    kinds, strategy, jobs, explicit = cfg[:4]
    cc = len(cfg) > 4 and cfg[4]
    killgold = len(cfg) > 5 and cfg[5]
    memgold = len(cfg) > 6 and cfg[6]
    r = random.Random(k)
    text = make_input(kinds, r)
    if cc:
        # slow golden run of the main command, quick cross-check command
        text = text.replace('(check-sat)', '(assert slow1)\n(check-sat)')
    wd = common.subscratch(f'c10-{k}')
    os.makedirs(wd, exist_ok=True)
    flog = os.path.join(wd, 'fault.log')
    spec = 'keep=check-sat,x;' + ';'.join(f'{kd}={KINDS_ALL[kd]}'
                                          for kd in kinds)
    opts = ['--strategy', strategy, '-j', str(jobs)]
    # (a mapping made 250 ms after the start needs a limit it can meet)
    tl = 2.0 if ('mmap' in kinds or 'mmapfast' in kinds) else 0.3
    limit = tl if explicit else None
    if explicit:
        opts += ['--timeout', str(tl)]
    if 'alloc' in kinds or 'mmap' in kinds or 'mmapfast' in kinds:
        opts += ['--memout', '64']
    if killgold:
        # the golden run (and every accepted candidate) dies from SIGKILL and
        # the output is ignored: a candidate that runs into the time limit is
        # killed by ddSMT - that is not "ended the same way"
        spec += ';killaccept=1'
        opts += ['--ignore-output']
    if memgold:
        # the failure to reproduce IS the exhaustion of the memory limit: the
        # golden run and every accepted candidate allocate until refused
        spec += ';allocaccept=1'
        opts += ['--memout', '64']
    if cc:
        spec += ';sleepif=slow1:1300'
        opts += ['-c', f'{FAULTCMD} {flog}.cc keep=check-sat']
    # the launcher is used directly (the scripted command here is faultcmd)
    infile = os.path.join(wd, 'input.smt2')
    outfile = os.path.join(wd, 'output.smt2')
    with open(infile, 'w') as f:
        f.write(text)
    evlog = os.path.join(wd, 'events.ndjson')
    tmp = os.path.join(wd, 'tmp')
    os.makedirs(tmp, exist_ok=True)
    argv = [common.PY, runs.LAUNCHER, '--log', evlog, '--'] + opts + [
        infile, outfile, FAULTCMD, flog, spec]
    env = dict(os.environ, TMPDIR=tmp, DDSMT_REPO=common.REPO,
               PYTHONDONTWRITEBYTECODE='1', PYTHONHASHSEED='0')
    import subprocess
    t0 = time.time()
    p = subprocess.Popen(argv, cwd=wd, env=env, stdout=subprocess.PIPE,
                         stderr=subprocess.PIPE, start_new_session=True)
    timed_out = False
    try:
        out, err = p.communicate(timeout=400 + 60 * runs.calibrate())
    except subprocess.TimeoutExpired:
        timed_out = True
        os.killpg(p.pid, signal.SIGKILL)
        out, err = p.communicate()
    wall = time.time() - t0
    time.sleep(1.0)
    # surviving command processes (grandchildren are named "grandkid")
    left = []
    for pid in os.listdir('/proc'):
        if not pid.isdigit():
            continue
        try:
            with open(f'/proc/{pid}/cmdline', 'rb') as f:
                cl = f.read()
            if flog.encode() in cl:
                comm = open(f'/proc/{pid}/comm').read().strip()
                if comm == 'grandkid':
                    os.kill(int(pid), signal.SIGKILL)
                else:
                    st = open(f'/proc/{pid}/stat').read().split()[2]
                    left.append((int(pid), comm, st))
                    os.kill(int(pid), signal.SIGKILL)
        except OSError:
            continue
    res = {
        'cfg': {'kinds': list(kinds), 'strategy': strategy, 'jobs': jobs,
                'explicit': explicit, 'cc': bool(cc),
                'killgold': bool(killgold), 'memgold': bool(memgold)},
        'text': text, 'status': p.returncode, 'timed_out': timed_out,
        'wall': wall, 'stderr': err.decode('utf-8', 'replace')[-1500:],
        'left': left,
        'out_text': open(outfile).read() if os.path.exists(outfile) else None,
        'faultlog': open(flog).read().split('\n') if os.path.exists(flog)
        else [],
        'events': runs.read_ndjson(evlog),
        'limit': limit,
    }
    return res


def main():
    a = common.std_args()
    build_cmd()
    rep = common.Report('C10', 'fault_enumeration', a.tier)
    rep.cov['rule'] = (
        'model: all behaviours of Exec.tla; runs: placements of <= 3 of the '
        'seven fault kinds (hang, spin, alloc, anonymous mapping, signal, '
        'grandchild, overrun by less than a second; the command ignores '
        'SIGTERM) in the '
        'input x strategy x -j 1/2 x explicit (0.3 s) or derived time limit; '
        'one evaluation per executed command; non-trivial = executions that '
        'hit a fault; distinct by (configuration, execution)')
    rep.assumptions += [
        'slack for the total-time bound: 3 s + 0.1 s per test (interpreter '
        'and pool start-up) + 3 x the measured wall time of a small complete '
        'run per 40 tests (scales with the load of the machine)',
        'grandchildren of the command are not "the command process"; they are '
        'reaped by the harness',
    ]
    res = common.run_tlc('Exec', 'MC_Exec.cfg', timeout=600)
    if res.violated:
        raise common.MachineryError('Exec.tla violates ' + str(res.violated))
    rep.add_tlc(res, 'MC_Exec.cfg')
    r = random.Random(common.seed() + 10)
    # ("slow" overruns only the 0.3 s limit; the mapping kinds get 2 s)
    subsets = [c for n in (1, 2, 3) for c in itertools.combinations(KINDS, n)
               if not ('slow' in c and 'mmap' in c)]
    cfgs = []
    for i, ks in enumerate(subsets):
        for strategy in ('ddmin', 'hierarchical', 'hybrid'):
            for jobs in (1, 2):
                cfgs.append((ks, strategy, jobs, True))
        if 'slow' not in ks:
            # (0.65 s is within every derived limit: not a fault there)
            cfgs.append((ks, 'hybrid', 2, False))
    if a.replay:
        with open(a.replay) as f:
            c = json.load(f)['replay']['cfg']
        cfgs = [(tuple(c['kinds']), c['strategy'], c['jobs'], c['explicit'],
                 c.get('cc', False), c.get('killgold', False),
                 c.get('memgold', False))]
    elif a.tier == 'quick':
        explicit = [c for c in cfgs if c[3]]
        derived = [c for c in cfgs if not c[3] and len(c[0]) == 1]
        cfgs = r.sample(explicit, 20) + r.sample(derived, 3)
        cfgs += [(('slow', ), 'ddmin', 1, True),
                 (('slow', 'hang'), 'hierarchical', 2, True),
                 (('mmap', ), 'hybrid', 2, True),
                 (('mmap', 'alloc'), 'ddmin', 1, True),
                 (('mmapfast', ), 'ddmin', 1, True)]
    if not a.replay:
        # a cross-check command with its own derived limit
        cfgs += [(('hang', ), 'hybrid', 2, False, True),
                 (('spin', ), 'ddmin', 1, False, True)][
                     :1 if a.tier == 'quick' else 2]
    if not a.replay:
        # a golden run that dies from SIGKILL, candidates that hang or spin
        cfgs += [(('hang', ), 'ddmin', 1, True, False, True),
                 (('spin', 'hang'), 'hierarchical', 2, True, False, True),
                 (('hang', ), 'hybrid', 2, False, False, True)]
        # the golden run exhausts its memory limit, with and without an
        # explicit time limit
        cfgs += [(('hang', ), 'ddmin', 1, False, False, False, True),
                 (('hang', ), 'hybrid', 2, True, False, False, True)]
    if os.environ.get('VERIF_C10_ONLY') == 'killgold':
        cfgs = [c for c in cfgs if len(c) > 5 and (c[5] or (
            len(c) > 6 and c[6]))]
    from concurrent.futures import ThreadPoolExecutor
    runs.calibrate()
    with ThreadPoolExecutor(5) as ex:
        results = list(ex.map(lambda kv: run_one(*kv), enumerate(cfgs)))
    cases = []
    for k, rr in enumerate(results):
        cfg = rr['cfg']
        sig = json.dumps(cfg, sort_keys=True)
        rp = {'cfg': cfg}
        ntests = len([x for x in rr['faultlog'] if x.strip()])
        nfault = len([x for x in rr['faultlog']
                      if x.strip() and x.split()[-1] in KINDS_ALL])
        rep.count(ntests)
        for i in range(nfault):
            rep.nontrivial(f'{k}:{i}')
        if rr['timed_out']:
            rep.violation(f'stalled:{sig}',
                          f'ddSMT did not finish within 400 s: {cfg}', rp)
            continue
        if 'Traceback (most recent call last)' in rr['stderr'] and \
                rr['status'] != 0:
            rep.violation(f'internal-error:{sig}',
                          'ddSMT aborted: ' +
                          rr['stderr'].strip().splitlines()[-1][:200], rp)
            continue
        if rr['status'] != 0:
            rep.violation(f'exit-status:{sig}',
                          f'exit status {rr["status"]} for {cfg}', rp)
        gold = next((e for e in rr['events'] if e['ev'] == 'golden'), None)
        if cfg.get('memgold') and gold and gold.get('golden'):
            # the golden run is a run like any other: under --memout 64 the
            # command cannot get 1.5 GB (exit 4), it is refused (exit 3)
            if gold['golden'][0] != 3:
                rep.violation(
                    f'golden-run-not-limited:{sig}',
                    f'--memout 64: the golden run of a command that '
                    f'allocates until it is refused ended with exit status '
                    f'{gold["golden"][0]} (3 = refused under the limit, 4 = '
                    f'got 1.5 GB): the limit was not in force; {cfg}', rp)
        limit = rr['limit']
        if gold and limit is None:
            limit = gold['timeout']
        if limit is None:
            raise common.MachineryError('no limit recorded')
        # tests x limit, plus ddSMT's own work per test, which is measured on
        # this machine right now (a loaded machine must not look like a stall)
        bound = ntests * limit / 1.0 + 3.0 + 0.1 * ntests + \
            3.0 * runs.calibrate() * max(1.0, ntests / 40.0)
        if rr['wall'] > bound:
            rep.violation(
                f'total-time:{sig}',
                f'run took {rr["wall"]:.1f}s for {ntests} tests with limit '
                f'{limit}s (bound {bound:.1f}s): {cfg}', rp)
        if rr['out_text'] is not None:
            toks = refreader.lex(rr['out_text'])
            missing = [KINDS_ALL[kd] for kd in cfg['kinds']
                       if KINDS_ALL[kd] not in toks]
            if missing:
                rep.violation(
                    f'faulty-candidate-adopted:{"+".join(missing)}:{sig}',
                    f'the output lost marker(s) {missing}: a candidate on '
                    f'which the command exceeded its limit / died was '
                    f'accepted; output {rr["out_text"]!r}', rp)
        if rr['left']:
            rep.violation(
                f'command-process-left:{sig}',
                f'command processes survive ddSMT: {rr["left"]}', rp)
        # cases for TLC: every execution with the verdict of its check
        per = {}
        for e in rr['events']:
            if e['ev'] in ('exec', 'check'):
                per.setdefault(e['pid'], []).append(e)
        gto = bool(gold and gold['golden'] and gold['golden'][1] is None)
        for pid, evs in per.items():
            evs.sort(key=lambda e: e['seq'])
            pend = []
            for e in evs:
                if e['ev'] == 'exec':
                    pend.append(e)
                else:
                    for x in pend:
                        cases.append({
                            'cid': len(cases), 'run': k,
                            'goldenTimedOut': gto,
                            'runTimedOut': bool(x['timed_out']),
                            'accepted': bool(e['verdict']),
                            'wall_ms': x['wall_ms'],
                            'limit_ms': int((x['timeout'] or 0) * 1000)})
                    pend = []
        if gold and not cfg['explicit'] and gold['golden']:
            cases.append({'cid': len(cases), 'run': k, 'derived': True,
                          'golden_ms': int(gold['golden'][3] * 1000),
                          'limit_ms': int(gold['timeout'] * 1000)})
            if gold.get('golden_cc') and gold.get('timeout_cc'):
                cases.append({'cid': len(cases), 'run': k, 'derived': True,
                              'golden_ms': int(gold['golden_cc'][3] * 1000),
                              'limit_ms': int(gold['timeout_cc'] * 1000)})
    # TLC judges the recorded executions
    path = os.path.join(common.subscratch('c10'), 'cases.json')
    with open(path, 'w') as f:
        json.dump(cases, f)
    res = common.run_tlc('ExecTrace', 'ExecTrace.cfg', workers=1,
                         coverage=False, env={'CASES': path}, timeout=1200)
    if res.violated or res.distinct != len(cases) + 1:
        raise common.MachineryError('ExecTrace failed: ' + res.output[-1500:])
    rep.add_tlc(res, 'ExecTrace')
    rep.cov['traces_validated_against_impl'] = len(cases)
    for m in re.finditer(r'<<\s*"FAIL",\s*(\d+),\s*"([\w-]+)"\s*>>',
                         res.output):
        c = cases[int(m.group(1))]
        cfg = results[c['run']]['cfg']
        rep.violation(
            f'{m.group(2)}:{json.dumps(cfg, sort_keys=True)}',
            f'{m.group(2)}: recorded execution {c} in run {cfg}',
            {'cfg': cfg})
    rep.sample({'cfg': results[0]['cfg'], 'input': results[0]['text'],
                'fault_log': results[0]['faultlog'][:8],
                'wall_s': round(results[0]['wall'], 2)})
    rep.cov['runs'] = len(results)
    # a golden run that lacks a configured match string (Main.tla: outcome
    # "nomatch") stops ddSMT with status 1 before any minimisation: one or
    # both strings configured, the golden run on time or timed out
    sys.path.insert(0, os.path.dirname(os.path.abspath(__file__)))
    import c04 as C4
    nomatch = ['match-out-absent', 'match-err-absent',
               'match-both-out-absent', 'match-both-err-absent',
               'golden-timeout-match-out', 'golden-timeout-match-err']
    for k, f in enumerate(nomatch):
        for st in (('ddmin', 'hierarchical') if a.tier == 'quick'
                   else ('ddmin', 'hierarchical', 'hybrid')):
            sit = {'flag': 'none', 'fault': f, 'entry': 'module',
                   'strategy': st, 'outcome': 'nomatch', 'status': 1}
            r = C4.usage_run(1000 + k, sit)
            rep.count()
            rep.nontrivial('nomatch:' + f + ':' + st)
            if r.timed_out or r.status != 1 or len(r.cmdlog) > 1:
                rep.violation(
                    f'nomatch-not-stopped:{f}:{st}',
                    f'{f} ({st}): exit status {r.status}, the command was '
                    f'run {len(r.cmdlog)} times; ddSMT must stop with status '
                    f'1 after the golden run', {'cfg': sit})
            import shutil
            shutil.rmtree(r.workdir, ignore_errors=True)
    return rep.finish()


if __name__ == '__main__':
    common.main_wrapper(main)
