"""C15 - every proposed simplification is applicable and lexically closed.

The contract of one proposal is stated in TLA+ (Conform.tla): the tree kept in
memory equals what a reader parses from the text written for it
(LexText(text) = Tokens(result), ReadText has its shape - i.e. every leaf is a
single token) and declared symbols are fresh and declared before use.  The
harness enumerates all mutators x nodes x proposals with the real code on
well-sorted seed scripts over all theories and on their partially reduced
forms, applies and renders each proposal, and TLC judges every recorded
(result, text) pair.  Structural obligations that need no reader (identity
keys belong to the input, apply/render raise nothing, the result is a list of
nodes) are checked while recording.
"""
import json
import os
import random
import sys

sys.path.insert(0, os.path.join(os.path.dirname(os.path.abspath(__file__)),
                                '..', 'lib'))
import common  # noqa: E402
import conform  # noqa: E402
import ddsmt_env  # noqa: E402
import proposals as P  # noqa: E402
import refreader  # noqa: E402
import seeds  # noqa: E402

LIMITS = {'quick': dict(derived_per_seed=6, max_cases=0.08),
          'thorough': dict(derived_per_seed=60, max_cases=0.1)}
SAMPLER = random.Random(1)

DECL_HEADS = {'declare-const', 'declare-fun', 'define-fun', 'define-fun-rec',
              'declare-sort', 'define-sort', 'define-const'}


DECL_ARITY = {'declare-const': 3, 'declare-fun': 4, 'define-fun': 5,
              'define-fun-rec': 5, 'declare-sort': 3, 'define-sort': 4,
              'define-const': 4}


def declared_symbols(exprs):
    out = set()
    for e in exprs:
        if e.is_leaf() or not e.has_ident():
            continue
        h = e.get_ident().data
        # only commands of the right shape declare something (a partially
        # reduced (define-fun f ((a S)) body) without its sort declares
        # nothing, for ddSMT and for every solver)
        if h in DECL_HEADS and len(e) == DECL_ARITY[h] and e[1].is_leaf():
            out.add(e[1].data)
        elif h == 'define-funs-rec' and len(e) >= 2 and not e[1].is_leaf():
            for d in e[1]:
                if not d.is_leaf() and len(d) >= 1 and d[0].is_leaf():
                    out.add(d[0].data)
        elif h in ('declare-datatypes', 'declare-datatype'):
            # sort names, constructors, selectors: every leaf in name position
            stack = list(e.data[1:])
            while stack:
                x = stack.pop()
                if x.is_leaf():
                    continue
                if len(x) >= 1 and x[0].is_leaf():
                    out.add(x[0].data)
                stack.extend(x.data)
    return out


def all_ids(nodes_mod, exprs):
    return {n.id for n in nodes_mod.dfs(exprs)}


def record(mods, rep, name, exprs, cases, viol, derived, limit):
    nodes_mod, nodeio = mods['nodes'], mods['nodeio']
    Node = nodes_mod.Node
    ids = all_ids(nodes_mod, exprs)
    declared = declared_symbols(exprs)
    base_text = nodeio.write_smtlib_to_str(exprs)
    muts = P.all_mutators(mods)
    nprop = 0
    for p in P.enumerate_proposals(mods, exprs, muts):
        if p['error']:
            continue  # a failing mutator costs only its candidates (C04)
        simp = p['simp']
        nprop += 1
        rep.count()
        where = f'{p["mut"]}:seed={name}:node={p["idx"]}'
        ctx = {'seed': name, 'input': base_text, 'mutator': p['mut'],
               'bfs_node': p['idx'], 'node': str(p['node'])[:200]}
        if not isinstance(simp, mods['mutator_utils'].Simplification):
            viol.append(('not-a-simplification:' + where,
                         f'{p["mut"]} yields {type(simp).__name__}', ctx))
            continue
        foreign = [k for k in simp.substs if isinstance(k, int) and k not in ids]
        if foreign:
            viol.append(('foreign-identity-key:' + where,
                         f'{p["mut"]} refers to node ids {foreign} that are '
                         f'not in the input', ctx))
            continue
        res, err = P.apply(mods, exprs, simp)
        if err:
            viol.append(('apply-error:' + where,
                         f'applying the proposal of {p["mut"]} at '
                         f'{str(p["node"])[:80]!r} raises {err}', ctx))
            continue
        if res is None or not isinstance(res, list) or not all(
                isinstance(x, Node) for x in res):
            bad = [type(x).__name__ for x in (res or [])
                   if not isinstance(x, Node)] if isinstance(res, list) \
                else type(res).__name__
            viol.append(('result-not-a-list-of-nodes:' + where,
                         f'the result of the proposal of {p["mut"]} at '
                         f'{str(p["node"])[:80]!r} contains {bad}', ctx))
            continue
        try:
            text = nodeio.write_smtlib_to_str(res)
        except Exception as e:  # noqa
            viol.append(('render-error:' + where,
                         f'rendering the result raises {e!r}', ctx))
            continue
        # pre-screen with the reference reader (validated against
        # LexerOps.tla by C08): TLC adjudicates every suspect and a sample of
        # the others
        try:
            ok = (refreader.lex(text) == [
                t.rstrip('\r\n') if t.startswith(';') else t
                for t in P.toks_of(res)])
        except refreader.ReadError:
            ok = False
        suspect = not ok
        cid = len(cases)
        if suspect or SAMPLER.random() < limit:
            cases.append(({'cid': cid, 'kind': 'render',
                           'f': conform.enc_forest(res, with_ids=False),
                           'text': conform.enc_text(text)},
                          where, dict(ctx, rendered=text, suspect=suspect)))
        if True:
            if simp.fresh_vars:
                fresh = [d[1].data for d in simp.fresh_vars
                         if not d.is_leaf() and len(d) >= 2 and d[1].is_leaf()]
                cases.append(({'cid': len(cases), 'kind': 'decl',
                               'g': conform.enc_forest(res, with_ids=False),
                               'declared': [conform.enc_text(s)
                                            for s in sorted(declared)],
                               'fresh': [conform.enc_text(s) for s in fresh]},
                              where, dict(ctx, rendered=text,
                                          fresh=fresh)))
        if derived is not None and len(derived) < 400:
            derived.append(text)
    return nprop


def histories(mods, rep, name, exprs, viol, rnd, nsteps=(4, 2)):
    """The mutator objects of a strategy live for a whole reduction and the
    nodes an accepted step does not touch keep their identity.  Histories of
    one and two accepted steps with PERSISTENT mutator objects, as a
    reduction runs them: every proposal on the then-current input must refer
    to nodes of that input only and must be applicable."""
    nodes_mod = mods['nodes']
    muts = P.all_mutators(mods)
    n = 0

    def proposals(ex):
        return [p for p in P.enumerate_proposals(mods, ex, muts)
                if not p['error'] and isinstance(
                    p['simp'], mods['mutator_utils'].Simplification)]

    def check(ex, hist):
        nonlocal n
        ids = all_ids(nodes_mod, ex)
        props = proposals(ex)
        for p in props:
            n += 1
            rep.count()
            foreign = [k for k in p['simp'].substs
                       if isinstance(k, int) and k not in ids]
            where = f'{p["mut"]}:seed={name}:history={"/".join(hist)}'
            ctx = {'seed': name, 'mutator': p['mut'], 'history': hist,
                   'input': mods['nodeio'].write_smtlib_to_str(ex),
                   'node': str(p['node'])[:200]}
            if foreign:
                viol.append(('foreign-identity-key-after-history:' + where,
                             f'after the accepted steps {hist} (same mutator '
                             f'objects, untouched nodes keep their identity) '
                             f'{p["mut"]} proposes a simplification for '
                             f'{str(p["node"])[:80]!r} that refers to node '
                             f'ids {foreign}, which are not in the current '
                             f'input', ctx))
        return props

    props0 = check(exprs, [])
    changing = []
    base = P.toks_of(exprs)
    for p in props0:
        res, err = P.apply(mods, exprs, p['simp'])
        if not err and res is not None and P.toks_of(res) != base:
            changing.append((p, res))
    rnd.shuffle(changing)
    for p, res in changing[:nsteps[0]]:
        ex1 = nodes_mod.reduplicate(res)
        h1 = [f'{p["mut"]}@{p["idx"]}']
        props1 = check(ex1, h1)
        ch1 = []
        b1 = P.toks_of(ex1)
        for q in props1:
            r2, err = P.apply(mods, ex1, q['simp'])
            if not err and r2 is not None and P.toks_of(r2) != b1:
                ch1.append((q, r2))
        rnd.shuffle(ch1)
        for q, r2 in ch1[:nsteps[1]]:
            check(nodes_mod.reduplicate(r2), h1 + [f'{q["mut"]}@{q["idx"]}'])
        # the first input again (a rejected step): the objects have seen a
        # later input in between
        check(exprs, h1 + ['back'])
    return n


NON_ASCII = [
    '(declare-const s String)\n(assert (= s "caf\u00e9 \u00fcber"))\n'
    '(assert (str.contains s "\u00e9"))\n(check-sat)\n',
    '(declare-const |gr\u00f6\u00dfe x| Int)\n'
    '(assert (> |gr\u00f6\u00dfe x| 0))\n(check-sat)\n',
    '(declare-const t String)\n'
    '(assert (= t "\u4e2d\u6587 \U0001f600 text"))\n(check-sat)\n',
]


def worker_roundtrip(mods, rep, viol):
    """Proposals are applied in worker processes: input and proposal arrive
    pickled, the result goes back pickled.  On inputs with characters outside
    ASCII every proposal, applied that way, must give what applying it
    directly gives, and what a reader parses from the rendered result."""
    import pickle
    nodeio = mods['nodeio']
    n = 0
    for text in NON_ASCII:
        exprs = list(nodeio.parse_smtlib(text))
        muts = P.all_mutators(mods)
        for p in P.enumerate_proposals(mods, exprs, muts):
            if p['error'] or not isinstance(
                    p['simp'], mods['mutator_utils'].Simplification):
                continue
            direct, err = P.apply(mods, exprs, p['simp'])
            if err or direct is None:
                continue
            n += 1
            rep.count()
            where = f'{p["mut"]}:non-ascii:node={p["idx"]}'
            ctx = {'seed': 'non-ascii', 'input': text, 'mutator': p['mut'],
                   'node': str(p['node'])[:200]}
            try:
                wex = pickle.loads(pickle.dumps(exprs))
                wsimp = pickle.loads(pickle.dumps(p['simp']))
                wres, werr = P.apply(mods, wex, wsimp)
                if werr:
                    raise RuntimeError(werr)
                back = pickle.loads(pickle.dumps(wres))
                got = P.toks_of(back)
                rendered = nodeio.write_smtlib_to_str(back)
                reread = P.toks_of(list(nodeio.parse_smtlib(rendered)))
            except Exception as e:  # noqa
                viol.append(('worker-application-fails:' + where,
                             f'the proposal of {p["mut"]} at '
                             f'{str(p["node"])[:80]!r} cannot be applied the '
                             f'way a worker does (pickled input and proposal, '
                             f'pickled result): {e!r}', ctx))
                continue
            if got != P.toks_of(direct) or reread != got:
                viol.append(('worker-application-differs:' + where,
                             f'the proposal of {p["mut"]} at '
                             f'{str(p["node"])[:80]!r} applied the way a '
                             f'worker does gives {" ".join(got)!r} (re-read: '
                             f'{" ".join(reread)!r}), directly '
                             f'{" ".join(P.toks_of(direct))!r}', ctx))
    return n


def main():
    a = common.std_args()
    ddsmt_env.load()
    mods = ddsmt_env.mods()
    lim = LIMITS[a.tier]
    rep = common.Report('C15', 'model_checking', a.tier)
    rep.cov['rule'] = (
        'all mutators x all BFS nodes x all proposals on the seed scripts of '
        'lib/seeds.py and on a seeded sample of their one-step reduced forms; '
        'one case per proposal; TLC (Conform.tla) judges the (result, '
        'rendered text) pair of each; non-trivial = the proposal changes the '
        'token sequence; distinct by (input, mutator, node, result)')
    rep.assumptions += [
        'inputs are the hand-kept seeds and forms derived from them by real '
        'proposals, not all well-sorted scripts',
        'a mutator that raises costs only its candidates (C04) and is not a '
        'C15 violation',
    ]
    rnd = random.Random(common.seed() + 15)
    SAMPLER.seed(common.seed() + 150)
    cases = []
    viol = []
    if a.replay:
        with open(a.replay) as f:
            rp = json.load(f)['replay']
        work = [('replay', rp['input'])]
        lim = dict(derived_per_seed=0, max_cases=1.0)
    else:
        work = seeds.all_seeds()
    total = 0
    for name, text in work:
        exprs = list(mods['nodeio'].parse_smtlib(text))
        derived = []
        total += record(mods, rep, name, exprs, cases, viol, derived,
                        lim['max_cases'])
        if not a.replay:
            nh = histories(mods, rep, name, exprs, viol, rnd,
                           (4, 2) if a.tier == 'quick' else (12, 4))
            rep.cov['proposals_after_histories'] = rep.cov.get(
                'proposals_after_histories', 0) + nh
        rnd.shuffle(derived)
        for k, dtext in enumerate(derived[:lim['derived_per_seed']]):
            try:
                dex = list(mods['nodeio'].parse_smtlib(dtext))
            except Exception:  # noqa: C08/C04's business
                continue
            total += record(mods, rep, f'{name}+{k}', dex, cases, viol, None,
                            lim['max_cases'])
    if not a.replay:
        rep.cov['proposals_applied_like_a_worker'] = worker_roundtrip(
            mods, rep, viol)
    for sig, msg, ctx in viol:
        if a.replay and ctx['mutator'] != rp.get('mutator'):
            continue
        rep.violation(sig, msg, ctx)
    # TLC judges the recorded pairs
    seen = set()
    for c, where, ctx in cases:
        d = common.digest([c.get('f', c.get('g')), c.get('text', c['kind'])])
        if ctx.get('rendered') != ctx.get('input'):
            seen.add(d)
    for d in seen:
        rep.nontrivial(d)
    B = 2500
    for b in range(0, len(cases), B):
        chunk = cases[b:b + B]
        fails = conform.judge(rep, [c for c, _, _ in chunk], f'c15-{b}')
        for cid, clause in fails.items():
            c, where, ctx = cases[cid]
            if a.replay and ctx['mutator'] != rp.get('mutator'):
                continue
            what = ('memory-differs-from-reparsed-text' if c['kind'] == 'render'
                    else 'declaration')
            rep.violation(
                f'{what}-{clause}:{where}',
                f'{ctx["mutator"]} at {ctx["node"][:80]!r}: TLC rejects '
                f'({clause}); rendered result {ctx.get("rendered", "")[:300]!r}'
                + (f'; fresh {ctx.get("fresh")}' if 'fresh' in ctx else ''),
                ctx)
    rep.cov['traces_validated_against_impl'] = len(cases)
    rep.cov['proposals'] = total
    for c, where, ctx in cases[:3]:
        rep.sample({'where': where, 'node': ctx['node'],
                    'rendered': ctx.get('rendered', '')[:300]})
    return rep.finish()


if __name__ == '__main__':
    common.main_wrapper(main)
