"""C02 - the hierarchical/hybrid result is a fixed point of every enabled
mutator.

Model: Hier.tla, invariants FixedPoint and LastSweepFull at pc = "done", over
all commands and all schedules (successes discarded after the abort signal,
restarts, pass changes).  Binding: (a) recorded hierarchical/hybrid runs are
validated by TLC against TraceHier.tla, whose end event is accepted only after
a sweep of the last pass that started at node 0 on the final input and adopted
nothing; (b) the property's external formulation: every proposal of every
enabled mutator at every node of the output is enumerated with ddSMT's own
mutators in this process and the command's predicate is evaluated on each;
(c) ddSMT is run again with --strategy hierarchical on its own output and must
report that it is unable to minimise it.
"""
import importlib.util
import json
import os
import random
import sys

sys.path.insert(0, os.path.join(os.path.dirname(os.path.abspath(__file__)),
                                '..', 'lib'))
import common  # noqa: E402
import corpus  # noqa: E402
import ddsmt_env  # noqa: E402
import refreader  # noqa: E402
import runs  # noqa: E402
import stratcheck as S  # noqa: E402

MODELS = {
    'quick': [('MC_Hier', 'MC_Hier_q2.cfg', 900),
              ('MC_Hier', 'MC_Hier_q1.cfg', 900)],
    'thorough': [('MC_Hier', 'MC_Hier_q2.cfg', 900),
                 ('MC_Hier', 'MC_Hier_t3.cfg', 3000),
                 ('MC_Hier', 'MC_Hier_t4.cfg', 6000)],
}
NRUNS = {'quick': 40, 'thorough': 200}
CLAUSES = {
    'terminated-without-a-full-unsuccessful-sweep-of-the-last-pass',
    'sweep-mutators-differ-from-pass', 'TLastSweepFull',
    'adoption-not-written-to-file', 'sweep-base-differs-from-adopted-input',
}

_spec = importlib.util.spec_from_file_location(
    'pred', os.path.join(common.VERIF, 'cmds', 'pred.py'))
pred = importlib.util.module_from_spec(_spec)
_spec.loader.exec_module(pred)

MUT_SETS = [
    [], [], ['--disable-all', '--core'], ['--no-core'],
    ['--disable-all', '--smtlib', '--boolean'], ['--no-smtlib'],
    ['--disable-all', '--core', '--arithmetic'], ['--no-constants'],
]


DIRECTED = [
    ('(declare-const x Int)\n(declare-const y Int)\n(assert (= x y))\n'
     '(assert (> (+ x 1) (* x 2)))\n(assert (< x 5))\n(check-sat)\n',
     {'mode': 'contains', 'markers': ['=', 'y', '*', '5']}, []),
    ('(declare-const a Int)\n(declare-const b Int)\n'
     '(assert (let ((z (+ a b))) (> (* z z) (+ z a))))\n(check-sat)\n',
     {'mode': 'contains', 'markers': ['*', '>', 'a']}, []),
    ('(declare-const s String)\n(declare-const t String)\n'
     '(assert (= s "abcdefgh"))\n(assert (str.contains t "xyz"))\n'
     '(check-sat)\n',
     {'mode': 'strlit', 'markers': ['=', 'str.contains']},
     ['--no-smtlib']),
    ('(declare-const s String)\n(assert (= s "abcdefgh"))\n(check-sat)\n',
     {'mode': 'strlit', 'markers': ['=', 's']},
     ['--no-simplify-symbol-names', '--no-simplify-quoted-symbols']),
]


def make_configs(r, n):
    cfgs = corpus.configs(r, n, strategies=('hierarchical', 'hybrid'),
                          jobs=(1, 2, 4), outmodes=((), ))
    out = []
    for i, (text, spec, opts, meta) in enumerate(cfgs):
        if spec.get('mode') == 'hash':
            spec = corpus.gen_pred(r, text, r.choice(
                ['contains', 'subseq', 'count', 'balanced']))
            spec['delay_ms'] = 3
        ms = MUT_SETS[i % len(MUT_SETS)]
        opts = opts + ms
        meta['mutopts'] = ms
        out.append((text, spec, opts, meta))
    # directed histories: an accepted step that inserts one object at several
    # places (the later copies must still be examined on their own), and a
    # mutator that only the last pass contains
    # a command accepting exactly a history: variable elimination puts one
    # object at several places; the only remaining accepted step rewrites the
    # LAST copy
    decl = '(declare-const x Int)\n(declare-const y Int)\n'
    hist = [decl + '(assert (= x y))\n(assert (> (+ x x) (* x x)))\n',
            decl + '(assert (= y y))\n(assert (> (+ y y) (* y y)))\n',
            decl + '(assert (= y y))\n(assert (> (+ y y) (* y 0)))\n']
    member = {'mode': 'member', 'members': [refreader.lex(t) for t in hist]}
    for st, j in (('hierarchical', 1), ('hybrid', 2)):
        out.append((hist[0], dict(member, delay_ms=1),
                    ['--strategy', st, '-j', str(j)],
                    {'strategy': st, 'jobs': j, 'n': f'H{st}',
                     'mutopts': []}))
    # the specially configured instance of the first pass (binary reduction
    # over the top-level assertions only): two non-adjacent assertions that
    # can only go together, and only once another command is gone
    cmds = ['(assert p1)', '(set-info :k1 v1)', '(assert p2)',
            '(set-info :k2 v2)', '(assert p3)', '(set-info :k3 v3)',
            '(assert p4)', '(echo junk)']
    t0 = '\n'.join(cmds) + '\n'
    t1 = '\n'.join(cmds[:-1]) + '\n'
    t2 = '\n'.join(c for c in cmds[:-1]
                   if c not in ('(assert p1)', '(assert p2)')) + '\n'
    member = {'mode': 'member',
              'members': [refreader.lex(t) for t in (t0, t1, t2)]}
    for st, j in (('hierarchical', 1), ('hybrid', 2)):
        out.append((t0, dict(member, delay_ms=1),
                    ['--strategy', st, '-j', str(j)],
                    {'strategy': st, 'jobs': j, 'n': f'B{st}',
                     'mutopts': []}))
    for k, (text, spec, ms) in enumerate(DIRECTED):
        for st, j in (('hierarchical', 1), ('hybrid', 2)):
            out.append((text, dict(spec, delay_ms=1),
                        ['--strategy', st, '-j', str(j)] + ms,
                        {'strategy': st, 'jobs': j, 'n': f'D{k}{st}',
                         'mutopts': ms}))
    return out


def enabled_mutators(mods, ns_flags):
    """Instances of every mutator enabled in the recorded option namespace."""
    res = []
    for tname, (module, names) in mods['mutators'].get_all_mutators().items():
        for cls, opt in names.items():
            attr = 'mutator_' + opt.replace('-', '_')
            if ns_flags.get(attr, True):
                res.append(getattr(module, cls)())
                if cls == 'BinaryReduction':
                    # the specially configured instance of the first pass
                    inst = getattr(module, cls)()
                    inst.ident = 'assert'
                    res.append(inst)
    return res


def external_fixed_point(mods, it):
    """-> list of (mutator, node index, candidate tokens) accepted by the
    command although ddSMT reported a fixed point."""
    r = it.run
    nodes, nodeio, smtlib = mods['nodes'], mods['nodeio'], mods['smtlib']
    mu = mods['mutator_utils']
    optev = next((e for e in r.events if e['ev'] == 'options'), None)
    if optev is None:
        return [], 0
    muts = enabled_mutators(mods, optev['ns'])
    exprs = list(nodeio.parse_smtlib(r.out_text))
    smtlib.collect_information(exprs)
    base_toks = refreader.flatten(refreader.forest_to_nested(exprs))
    found = []
    nprop = 0
    spec = dict(it.spec)
    for idx, node in enumerate(nodes.bfs(exprs), 1):
        for m in muts:
            try:
                if hasattr(m, 'filter') and not m.filter(node):
                    continue
                props = []
                if hasattr(m, 'mutations'):
                    props += list(m.mutations(node))
                if hasattr(m, 'global_mutations'):
                    props += list(m.global_mutations(node, exprs))
            except Exception:  # noqa: costs only this mutator (C04)
                continue
            for simp in props:
                try:
                    cand = mu.apply_simp(exprs, simp)
                    toks = refreader.flatten(refreader.forest_to_nested(cand))
                except Exception:  # noqa
                    continue
                nprop += 1
                if toks == base_toks:
                    continue  # a no-op proposal is C03's business
                if pred.holds(spec, toks):
                    found.append((type(m).__name__, idx, toks))
    return found, nprop


_FRESH = __import__('re').compile(r'^x\d+__fresh$')


def _norm(toks):
    return ['x#__fresh' if _FRESH.match(t) else t for t in toks]


def last_sweep_incomplete(mods, it):
    """The last sweep of a completed hierarchical run must have generated
    exactly the candidates the enabled mutators of the last pass propose on
    the final input (recomputed here from the text of that input, every
    mutator guarded on its own).  Returns None or a description."""
    import proposals as P
    ev = it.conv.main_events()
    sw = [i for i, e in enumerate(ev) if e['ev'] == 'sweep']
    if not sw:
        return None
    tail = ev[sw[-1]:]
    gen = next((e for e in tail if e['ev'] == 'generate'), None)
    if gen is None or not any(e['ev'] == 'generate_end' for e in tail):
        return None
    got = [(e['node'], e['name'], _norm(e['cand'])) for e in tail
           if e['ev'] == 'task' and e.get('strat') == 'hier']
    r = it.run
    text = r.out_text if r.out_text is not None else it.text
    exprs = list(mods['nodeio'].parse_smtlib(text))
    if P.toks_of(exprs) != tail[0]['base']:
        return None   # the file is not the last sweep's input (C01's business)
    mods['smtlib'].collect_information(exprs)
    byname = {type(m).__name__: m for m in P.all_mutators(mods)}
    # one instance per entry of the pass, configured like the one of the run
    # (the first pass's binary reduction over assertions has ident='assert')
    muts = []
    attrs = tail[0].get('mattrs') or [{}] * len(tail[0]['muts'])
    for n, at in zip(tail[0]['muts'], attrs):
        if n in byname:
            inst = type(byname[n])()
            for k, v in at.items():
                setattr(inst, k, v)
            muts.append(inst)
    params = gen.get('params') or {}
    nodes, mu = mods['nodes'], mods['mutator_utils']
    want = []
    count = 0
    for node in nodes.bfs(exprs, params.get('max_depth', None)):
        count += 1
        if count <= gen.get('skip', 0):
            continue
        for m in muts:
            try:
                if hasattr(m, 'filter') and not m.filter(node):
                    continue
                props = []
                if hasattr(m, 'mutations'):
                    for x in m.mutations(node):
                        props.append((str(m), x))
                if hasattr(m, 'global_mutations'):
                    for x in m.global_mutations(node, exprs):
                        props.append((f'(global) {m}', x))
            except Exception:  # noqa: costs this mutator only
                pass
            for name, simp in props:
                try:
                    ct = _norm(P.toks_of(mu.apply_simp(exprs, simp)))
                except Exception as e:  # noqa
                    ct = ['<apply failed %s>' % type(e).__name__]
                want.append((count, name, ct))
    if gen.get('skip', 0) != 0:
        return None   # not a sweep from node 0: the trace spec rejects the end
    if got != want:
        miss = [w for w in want if w not in got]
        extra = [g for g in got if g not in want]
        return (f'{len(got)} candidates generated, {len(want)} expected; '
                f'missing e.g. {[(n, nm) for n, nm, _ in miss[:3]]}, '
                f'unexpected e.g. {[(n, nm) for n, nm, _ in extra[:3]]}')
    return None


def judge(rep, mods, items, second_runs):
    for it in items:
        r = it.run
        rep.count()
        sig = common.digest(S.describe(it))
        if r.timed_out or r.status != 0 or it.hier is None:
            continue
        if not it.hier['complete']:
            continue
        rep.nontrivial(sig)
        S.trace_violations(rep, it, CLAUSES)
        try:
            inc = last_sweep_incomplete(mods, it)
        except Exception as e:  # noqa
            raise common.MachineryError(
                f'recomputing the last sweep failed: {e!r}')
        if inc:
            rep.violation(
                f'last-sweep-incomplete:{sig}',
                f'the last sweep of the last pass did not test every '
                f'candidate of the final input: {inc}; options {it.opts}',
                S.replay_obj(it))
        if r.out_text is None:
            continue
        try:
            found, nprop = external_fixed_point(mods, it)
        except Exception as e:  # noqa
            raise common.MachineryError(
                f'external enumeration failed on {r.out_text!r}: {e!r}')
        rep.cov['proposals_enumerated'] = rep.cov.get(
            'proposals_enumerated', 0) + nprop
        for mname, idx, toks in found[:3]:
            rep.violation(
                f'not-a-fixed-point:{mname}:{sig}',
                f'output {r.out_text!r} is not a fixed point: {mname} at BFS '
                f'node {idx} proposes {" ".join(toks)!r}, which the command '
                f'accepts; options {it.opts}', S.replay_obj(it))
    for it, r2 in second_runs:
        if r2.status != 0 or r2.timed_out:
            continue
        if 'unable to minimize input file' not in r2.stderr and \
                runs.out_tokens(r2) != runs.out_tokens(it.run):
            rep.violation(
                'second-run-minimises-further:' +
                common.digest(S.describe(it)),
                f'ddSMT --strategy hierarchical on its own output '
                f'{it.run.out_text!r} reduced it further to {r2.out_text!r}; '
                f'options {it.opts}', S.replay_obj(it))


def second(items, n):
    """Run ddSMT again (hierarchical, same mutator options) on outputs."""
    ok = [it for it in items
          if it.run.status == 0 and it.run.out_text is not None
          and it.hier is not None]
    # every directed configuration, and the first n of the others
    sel = [it for it in ok if str(it.meta.get('n', ''))[:1] in 'BDH']
    sel += [it for it in ok if it not in sel][:n]
    out = []
    base = common.subscratch('c02-second')
    from concurrent.futures import ThreadPoolExecutor

    def one(k):
        it = sel[k]
        wd = os.path.join(base, f's{k}')
        jobs = it.opts[it.opts.index('-j') + 1]
        opts = ['--strategy', 'hierarchical', '-j', jobs] + list(
            it.meta.get('mutopts', []))
        return runs.run_ddsmt(wd, it.run.out_text, it.spec, opts,
                              entry='module', timeout=240)

    with ThreadPoolExecutor(6) as ex:
        rs = list(ex.map(one, range(len(sel))))
    return list(zip(sel, rs))


REPLAY = {'quick': [('ab', 2, 40, 1), ('a_b', 2, 30, 0)],
          'thorough': [('ab', 2, 400, 1), ('a_b', 2, 200, 0),
                       ('abc', 2, 200, 1), ('ab_c', 3, None, 1, 'num=200')]}


def main():
    a = common.std_args()
    rep = common.Report('C02', 'model_checking', a.tier)
    rep.cov['rule'] = (
        'model: all behaviours of Hier.tla for the listed configurations; '
        'runs: seeded configurations (input x command x hierarchical/hybrid x '
        '-j 1/2/4 x mutator subsets), each validated by TLC (TraceHier) and '
        'by external enumeration of every proposal on the output; '
        'non-trivial = a completed hierarchical/hybrid run; distinct by '
        '(input, command, options)')
    rep.assumptions += [
        'commands do not distinguish fresh-variable names (no hash-of-all-'
        'tokens predicates in this check)',
        'the external enumeration uses the option namespace recorded after '
        'automatic theory detection of the run',
    ]
    ddsmt_env.load()
    mods = ddsmt_env.mods()
    if a.replay:
        with open(a.replay) as f:
            rp = json.load(f)['replay']
        cfgs = [(rp['input'], rp['spec'], rp['opts'], rp.get('meta', {}))] * 4
        items = S.validate(rep, S.execute(cfgs, label='replay'))
        judge(rep, mods, items, second(items, 2))
        S.cleanup(items)
        return rep.finish()
    S.model_check(rep, MODELS[a.tier])
    # the property is not vacuous: a faulty variant of the model is refuted
    S.model_refutes(rep, 'HierBad', 'MC_HierBad_early.cfg', ['FixedPoint', 'LastSweepFull'])
    r = random.Random(common.seed() + 2)
    cfgs = make_configs(r, NRUNS[a.tier])
    items = S.validate(rep, S.execute(cfgs, label='c02'))
    sec = second(items, 12 if a.tier == 'quick' else 150)
    judge(rep, mods, items, sec)
    for it in items[:4]:
        rep.sample({'config': S.describe(it), 'output': it.run.out_text,
                    'hier_verdict': str(it.hier_v)[:80]})
    rep.cov['runs'] = len(items)
    rep.cov['second_runs'] = len(sec)
    S.cleanup(items)
    # specification -> code: behaviours of HierSched.tla over the reduction
    # system extracted from the real passes (all verdict functions x all
    # dictatable completion orders), replayed into the real pool.  The
    # command accepts exactly the inputs of the behaviour's verdict function,
    # so the fixed point is read off the extracted task table: no task of the
    # last pass on the output may lead to an accepted input.
    import hreplay
    rr = hreplay.replay_all(rep, S, REPLAY[a.tier], common.seed() + 22,
                            'c02r')
    nfp = 0
    for it, d, b, diffs in rr:
        rep.count()
        if it.run.timed_out or it.run.status != 0:
            continue
        rep.nontrivial(common.digest([d['name'], b['sweeps']]))
        S.trace_violations(rep, it, CLAUSES)
        bad = hreplay.fixed_point_violations(d, it.run)
        nfp += 1
        if bad:
            rep.violation(
                'replayed-behaviour-output-not-a-fixed-point:' +
                common.digest([d['name'], b['sweeps']]),
                f'system {d["name"]}, -j {b["workers"]}: {bad[0]} '
                f'({len(bad)} such tasks); the run was dictated the '
                f'completion order and verdicts of a behaviour of '
                f'HierSched.tla' + (f'; it left the behaviour: {diffs[0]}'
                                    if diffs else ''), S.replay_obj(it))
    rep.cov['replay_outputs_checked_against_the_task_table'] = nfp
    rep.cov['replay_divergences'] = sum(1 for x in rr if x[3])
    S.cleanup([x[0] for x in rr])
    return rep.finish()


if __name__ == '__main__':
    common.main_wrapper(main)
