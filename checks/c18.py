"""C18 - sequential runs are reproducible.

Model: Hier.tla with one worker (FirstSuccessAdopted: the adopted task is the
first accepted task of its sweep in generation order, whatever the schedule of
producer thread, worker and main loop) and Ddmin.tla in sequential mode
(SeqDeterministic).  Binding: every configuration is run three times with
-j 1 under different PYTHONHASHSEED values and different timing perturbations
of the command; the sequences of written contents and the output files must be
identical, and every run is validated by TLC against TraceHier / TraceDdmin,
where with one job an adoption is accepted only if every task generated before
it in the same sweep was tested and rejected (this catches a hash-dependent
ORDER of proposals even if it happened to be stable across the seeds tried).
"""
import json
import os
import random
import re
import sys

sys.path.insert(0, os.path.join(os.path.dirname(os.path.abspath(__file__)),
                                '..', 'lib'))
import common  # noqa: E402
import corpus  # noqa: E402
import stratcheck as S  # noqa: E402

PARA = ('GenBegin', 'GenEnd', 'Recv', 'Succ1', 'Succ2', 'BatchEnd', 'Take',
        'Work')
MODELS = {
    'quick': [('MC_Hier', 'MC_Hier_q1.cfg', 900),
              ('Ddmin', 'MC_Ddmin_seq.cfg', 900, PARA)],
    'thorough': [('MC_Hier', 'MC_Hier_q1.cfg', 900),
                 ('MC_Hier', 'MC_Hier_t1.cfg', 3000),
                 ('Ddmin', 'MC_Ddmin_seq.cfg', 900, PARA)],
}
NCONF = {'quick': 15, 'thorough': 90}
SEEDS = ['0', '1', 'random']
CLAUSES = {
    'sequential-run-adopted-a-later-task-before-an-untested-earlier-one',
    'sequential-check-out-of-generation-order',
    'sequential-task-not-from-current-input',
    'sequential-check-not-against-current-input',
}


ENUM = ('(declare-datatype Color ((red) (green) (blue) (cyan) (black)))\n'
        '(declare-fun p (Color) Bool)\n(declare-const c Color)\n'
        '(declare-const d Color)\n(assert (p c))\n'
        '(assert (or (p d) (= c d)))\n(check-sat)\n')


APP = {'mode': 'app', 'head': 'p',
       'markers': ['declare-datatype', 'red', 'green', 'blue', 'cyan',
                   'black']}


_FRESH = re.compile(r'x\d+__fresh')


def canon_fresh(toks):
    """Rename the names IntroduceFreshVariable made (x<node id>__fresh) by
    order of first occurrence."""
    ren = {}
    return [ren.setdefault(t, 'x#%d__fresh' % len(ren))
            if _FRESH.fullmatch(t) else t for t in toks]


def theory_configs(r, tier):
    """Inputs over every theory (lib/seeds.py) under permissive commands: the
    candidates of the theory mutators compete, so an order of proposals that
    depends on hashing shows in the accepted sequence."""
    import seeds
    out = []
    texts = [('enum', ENUM)] + seeds.all_seeds()
    if tier == 'quick':
        texts = texts[:1] + r.sample(texts[1:], 4)
    for k, (name, text) in enumerate(texts):
        atoms = corpus.atoms_of(text)
        keep = [t for t in ('p', 'check-sat') if t in atoms][:1] or atoms[:1]
        st = ('ddmin', 'hierarchical', 'hybrid')[k % 3]
        out.append((text, {'mode': 'contains', 'markers': keep},
                    ['--strategy', st, '-j', '1'],
                    {'strategy': st, 'jobs': 1, 'n': 'T%d' % k}))
        if name == 'enum':
            # the application of p to one atom must stay: the constants of
            # the datatype compete for the argument position
            out[-1][1].clear()
            out[-1][1].update(dict(APP))
            for st2 in ('hierarchical', 'hybrid'):
                out.append((text, dict(APP),
                            ['--strategy', st2, '-j', '1'],
                            {'strategy': st2, 'jobs': 1, 'n': 'T0' + st2}))
    # a grouped ddmin step that introduces several fresh variables at once
    fresh = ('(declare-const a Int)\n(declare-const b Int)\n'
             '(declare-const c Int)\n(declare-const d Int)\n'
             '(assert (> (+ a b) (* c d)))\n(assert (> (- a c) (* b d)))\n'
             '(check-sat)\n')
    for k, extra in enumerate((['--disable-all', '--introduce-fresh-variables'],
                               ['--no-constants', '--no-substitute-children',
                                '--no-replace-by-variable'], [])):
        out.append((fresh, {'mode': 'subseq',
                            'markers': ['assert', '>', 'check-sat']},
                    ['--strategy', 'ddmin', '-j', '1'] + extra,
                    {'strategy': 'ddmin', 'jobs': 1, 'n': 'F%d' % k}))
    # fresh variables for terms that an earlier accepted substitution rebuilt:
    # the name carries the id of the rebuilt node (see known finding
    # C18-fresh-variable-ids)
    prod = ('(declare-const a Int)\n'
            '(assert (> (* (+ (- a 0) a) (- a a)) 0))\n(check-sat)\n')
    for st in ('hierarchical', 'hybrid'):
        out.append((prod, {'mode': 'prod2', 'head': '*'},
                    ['--strategy', st, '-j', '1'],
                    {'strategy': st, 'jobs': 1, 'n': 'P' + st,
                     'delays': [0, 40, 90]}))
    # minimising a hang: every check that reproduces it ends in the timeout,
    # having printed as many progress lines as its timing allowed
    hang = ('(set-logic QF_LIA)\n(declare-const a Int)\n'
            '(declare-const bug Int)\n(assert (> a 1))\n'
            '(assert (< bug a))\n(assert (> a 7))\n(assert (< a 9))\n'
            '(assert (> bug 3))\n(check-sat)\n(exit)\n')
    # the explicit limit scales with the load of the machine: a candidate
    # that does NOT reproduce the hang must never run into it
    import runs
    calib = runs.calibrate()
    T = max(3.0, round(calib, 1))
    for st in ('ddmin', 'hierarchical'):
        out.append((hang, {'mode': 'contains', 'markers': ['bug'],
                           'accept': {'ticks_ms': int(400 * T)}},
                    ['--strategy', st, '-j', '1', '--timeout', str(T),
                     '--disable-all', '--erase-node'],
                    {'strategy': st, 'jobs': 1, 'n': 'H' + st,
                     'delays': [0, int(150 * T), int(250 * T)]}))
    # a slow reference solver (-c) under automatic time limits: the limit of
    # the reference solver derives from ITS golden run
    # a slow golden run (automatic limit 4.5 s), fast checks once the slow
    # part is gone, and in one run only checks that take up to 2.5 s: the
    # limit is fixed after the golden run, whatever is accepted later
    if calib < 12:
        slow = hang.replace('(assert (> a 7))', '(assert (> a slowpart))')
        out.append((slow, {'mode': 'contains', 'markers': ['bug'],
                           'slow_with': {'token': 'slowpart', 'ms': 2000}},
                    ['--strategy', 'ddmin', '-j', '1', '--disable-all',
                     '--erase-node'],
                    {'strategy': 'ddmin', 'jobs': 1, 'n': 'G',
                     'delays': [0, 1200, 2500]}))
        # the same, steered: in the third run only, every accepted candidate
        # from which the (exit) command is gone takes 3 s - less than the
        # limit the golden run fixed (6 s), far more than 1.5 x (a quick
        # accepted check + 1 s)
        out.append((slow, {'mode': 'contains', 'markers': ['bug'],
                           'slow_with': {'token': 'slowpart', 'ms': 3000}},
                    ['--strategy', 'ddmin', '-j', '1', '--disable-all',
                     '--erase-node'],
                    {'strategy': 'ddmin', 'jobs': 1, 'n': 'G2',
                     'delays': [0, 0, 0],
                     'spec_k': [{}, {}, {'slow_without': {'token': 'exit',
                                                          'ms': 3000}}]}))
    # (the automatic limit is (golden + 1 s) * 1.5: its margin over the
    # delays used here is 1.3 s and cannot be scaled, so the configuration is
    # left out on a machine too loaded for that)
    for st in (('ddmin', ) if calib < 12 else ()):
        out.append((hang.replace('(check-sat)',
                                 '(assert (> a 2))\n(assert (> a 3))\n'
                                 '(assert (> a 4))\n(check-sat)'),
                    {'mode': 'contains', 'markers': ['bug']},
                    ['--strategy', st, '-j', '1', '--disable-all',
                     '--erase-node'],
                    {'strategy': st, 'jobs': 1, 'n': 'X' + st,
                     'cc_spec': {'mode': 'contains', 'markers': ['bug'],
                                 'accept': {'out': 'unsat\n', 'exit': 0},
                                 'reject': {'out': 'sat\n', 'exit': 0},
                                 'sleep_ms': 1200},
                     'cc_delays': [0, 400, 800]}))
    return out


def main():
    a = common.std_args()
    rep = common.Report('C18', 'model_checking', a.tier)
    rep.cov['rule'] = (
        'model: all schedules of Hier.tla with one worker and Ddmin.tla in '
        'sequential mode; runs: each seeded configuration (input x command x '
        'strategy, -j 1) executed 3 times with PYTHONHASHSEED 0 / 1 / random '
        'and different command delays; non-trivial = the configuration '
        'adopts at least two inputs; distinct by (input, command, options)')
    rep.assumptions += [
        'the scripted command is deterministic in the token sequence; its '
        'delays depend on a per-run seed only',
    ]
    r = random.Random(common.seed() + 18)
    if a.replay:
        with open(a.replay) as f:
            rp = json.load(f)['replay']
        base = [(rp['input'], rp['spec'], rp['opts'], rp.get('meta', {}))]
    else:
        S.model_check(rep, MODELS[a.tier])
        # the property is not vacuous: a faulty variant is refuted
        S.model_refutes(rep, 'HierBad', 'MC_HierBad_later.cfg', ['FirstSuccessAdopted'])
        base = corpus.configs(r, NCONF[a.tier], jobs=(1, ),
                              outmodes=((), ('--pretty-print', )))
        base += theory_configs(r, a.tier)
    cfgs = []
    for text, spec, opts, meta in base:
        for k, hs in enumerate(SEEDS):
            sp = dict(spec)
            sp['delay_ms'] = meta.get('delays', [0, 4, 9])[k]
            sp['delay_seed'] = r.randint(0, 10**6)
            sp.update(meta.get('spec_k', [{}, {}, {}])[k])
            m = dict(meta)
            m['env'] = {'PYTHONHASHSEED': hs}
            if k == 2:
                # the main loop is delayed after every successful result for
                # longer than a check takes (timing must not matter)
                m['env']['VERIF_MAIN_DELAY_MS'] = '250'
            if m.get('cc_spec'):
                m['cc_spec'] = dict(m['cc_spec'],
                                    delay_ms=m['cc_delays'][k],
                                    delay_seed=r.randint(0, 10**6))
            m['group'] = meta.get('n', 0)
            cfgs.append((text, sp, list(opts), m))
    items = S.validate(rep, S.execute(cfgs, label='c18'))
    groups = {}
    for it in items:
        groups.setdefault(it.meta['group'], []).append(it)
    for g, its in groups.items():
        rep.count()
        ref = its[0]
        key = common.digest([ref.text, {k: v for k, v in ref.spec.items()
                                        if not k.startswith('delay')
                                        and k != 'log'}, ref.opts])
        if any(it.run.timed_out or it.run.status != 0 for it in its):
            continue
        seqs = [[e['toks'] for e in it.run.events if e['ev'] == 'write']
                for it in its]
        if len(seqs[0]) >= 2:
            rep.nontrivial(key)
        for k, it in enumerate(its[1:], 1):
            if seqs[k] != seqs[0]:
                d = next((i for i in range(min(len(seqs[k]), len(seqs[0])))
                          if seqs[k][i] != seqs[0][i]),
                         min(len(seqs[k]), len(seqs[0])))
                if (d < min(len(seqs[k]), len(seqs[0]))
                        and canon_fresh(seqs[k][d]) == canon_fresh(seqs[0][d])):
                    # the first difference is in the numbers of the names of
                    # fresh variables only
                    rep.violation(
                        'fresh-variable-numbers-differ:' +
                        it.meta.get('strategy', '?'),
                        f'runs with PYTHONHASHSEED={SEEDS[0]} and {SEEDS[k]} '
                        f'(and different command delays) first differ at '
                        f'accepted input {d + 1}, in the numbers of '
                        f'x<N>__fresh names only: '
                        f'{" ".join(seqs[0][d])!r} vs '
                        f'{" ".join(seqs[k][d])!r}; options {it.opts}',
                        S.replay_obj(ref))
                    continue
                rep.violation(
                    'accepted-sequence-differs:' + key,
                    f'runs with PYTHONHASHSEED={SEEDS[0]} and {SEEDS[k]} go '
                    f'through different accepted inputs from step {d + 1} on; '
                    f'options {it.opts}', S.replay_obj(ref))
            elif it.run.out_text != ref.run.out_text:
                rep.violation(
                    'output-bytes-differ:' + key,
                    f'output files differ: {ref.run.out_text!r} vs '
                    f'{it.run.out_text!r}; options {it.opts}',
                    S.replay_obj(ref))
        for it in its:
            S.trace_violations(rep, it, CLAUSES)
    for it in items[:3]:
        rep.sample({'config': S.describe(it),
                    'hashseed': it.meta['env']['PYTHONHASHSEED'],
                    'accepted_inputs': len([e for e in it.run.events
                                            if e['ev'] == 'write']),
                    'output': it.run.out_text})
    rep.cov['runs'] = len(items)
    S.cleanup(items)
    return rep.finish()


if __name__ == '__main__':
    common.main_wrapper(main)
