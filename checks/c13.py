"""C13 - the working input is a tree: node identities are pairwise distinct.

Part A (spec -> code): specs/SExpr.tla ReduplicateOK evaluated on every DAG
GenForest.tla generates (sharing of leaves, lists and empty lists, also at top
level); every final state is replayed into ddsmt.nodes.reduplicate.
Part B (code -> spec): real runs (all strategies) over inputs on which the
sharing mutators apply (variable elimination, let substitution, constants);
the launcher records the identities of the input handed to every Producer /
TaskGenerator, and TLC (TraceHier / TraceDdmin) rejects a trace in which such
an input is not a tree.
"""
import json
import os
import sys

sys.path.insert(0, os.path.join(os.path.dirname(os.path.abspath(__file__)),
                                '..', 'lib'))
import common  # noqa: E402
import ddsmt_env  # noqa: E402
import forest as F  # noqa: E402

CONFIGS = {
    'quick': [('MC_GenForest_c13q.cfg', 900)],
    'thorough': [('MC_GenForest_c13t.cfg', 3000)],
}


def expand(d):
    return ''.join(d)


def check_redup(nodes, recs, obs):
    fr = F.build_nodes(nodes.Node, recs, expand)
    before = F.ids_nested(fr)
    try:
        g = nodes.reduplicate(fr)
    except Exception as e:  # noqa
        return [('exception', 'reduplicate raised ' + repr(e))]
    bad = []
    if F.ids_nested(fr) != before:
        bad.append(('arg-modified', 'reduplicate modified its argument'))
    if F.nested_of_nodes(g) != F.nested_of_nodes(fr):
        bad.append(('tokens', 'reduplicate changed the rendered tokens: '
                    f'{F.nested_of_nodes(g)} from {F.nested_of_nodes(fr)}'))
        return bad
    gi = [n.id for n in F.dfs_nodes(g)]
    fi = [n.id for n in F.dfs_nodes(fr)]
    if len(set(gi)) != len(gi):
        dup = sorted({i for i in gi if gi.count(i) > 1})
        dn = [repr(n) for n in F.dfs_nodes(g) if n.id in dup][:2]
        bad.append(('duplicate-ids',
                    f'identities {dup} still occur more than once after '
                    f'reduplicate (nodes {dn})'))
    for pos in sorted(obs['clean']):
        if gi[pos - 1] != fi[pos - 1]:
            bad.append(('identity-lost',
                        f'position {pos} was already unique (id '
                        f'{fi[pos - 1]}) but got identity {gi[pos - 1]}'))
            break
    return bad


def shape_class(recs):
    """Which kind of node is shared (for signatures)."""
    seen = {}
    kinds = set()

    def walk(rs):
        for r in rs:
            if r['id'] in seen:
                kinds.add('leaf' if r['t'] == 'L' else
                          ('empty-list' if not r['k'] else 'list'))
            seen[r['id']] = 1
            if r['t'] != 'L':
                walk(r['k'])

    walk(recs)
    return '+'.join(sorted(kinds)) or 'none'


TREE_CLAUSES = {'sweep-base-not-a-tree', 'round-base-not-a-tree',
                'written-input-not-a-tree'}

SHARING_INPUTS = [
    '(set-logic QF_LIA)\n(declare-const x Int)\n(declare-const y Int)\n'
    '(assert (= x (+ y 1)))\n(assert (> (* x x) (+ x 2)))\n'
    '(assert (< x (- x y)))\n(check-sat)\n',
    '(declare-const a Int)\n(declare-const b Int)\n'
    '(assert (let ((z (+ a b))) (> (* z z) (+ z a))))\n'
    '(assert (let ((w ())) (= w w)))\n(check-sat)\n',
    '(declare-const p Bool)\n(declare-const q Bool)\n'
    '(assert (= p (and q (not q))))\n(assert (or p (=> p q) (xor p p)))\n'
    '(check-sat)\n',
    '(declare-const x Int)\n(define-fun f ((a Int)) Int (+ a a a))\n'
    '(assert (= x (f (f x))))\n(assert (> (f x) (f (f 1))))\n(check-sat)\n',
]


# histories in which an accepted step shares a node without changing the
# number of compound expressions (a variable replaced by a variable), then
# further rounds / sweeps follow
DIRECTED = [
    # inlining a nullary definition: the body object then also lives in a
    # top-level command the step did not rewrite
    ('(declare-const a Int)\n(declare-const b Int)\n'
     '(define-fun f () Int (+ a b))\n(assert (> f 0))\n'
     '(assert (< (* f 2) 9))\n(check-sat)\n',
     {'mode': 'contains', 'markers': ['define-fun', '>', '*', '+']}),
    ('(declare-const x Int)\n(declare-const y Int)\n(assert (= x y))\n'
     '(assert (> (+ x 1) (* x 2)))\n(assert (< x 5))\n(check-sat)\n',
     {'mode': 'contains', 'markers': ['=', 'y', '*', '5']}),
    ('(declare-const u Bool)\n(declare-const v Bool)\n(assert (= v u))\n'
     '(assert (or v (not v) (and v u)))\n(assert (=> v v))\n(check-sat)\n',
     {'mode': 'contains', 'markers': ['=', 'u', 'or', '=>']}),
    ('(declare-const a Int)\n(declare-const b Int)\n(declare-const c Int)\n'
     '(assert (= a b c))\n(assert (> (+ a b) (- c a)))\n'
     '(assert (distinct a 7))\n(check-sat)\n',
     {'mode': 'contains', 'markers': ['=', '7', '+', '-', 'c']}),
]


def part_b(rep, tier):
    import random
    import corpus
    import stratcheck as S
    r = random.Random(common.seed() + 13)
    cfgs = []
    n = 16 if tier == 'quick' else 160
    for i in range(n):
        text = SHARING_INPUTS[i % len(SHARING_INPUTS)]
        spec = corpus.gen_pred(r, text, r.choice(['contains', 'count',
                                                  'balanced']))
        spec['delay_ms'] = 2
        st = ('hierarchical', 'ddmin', 'hybrid')[i % 3]
        opts = ['--strategy', st, '-j', str((1, 2, 4)[(i // 3) % 3])]
        cfgs.append((text, spec, opts, {'strategy': st, 'n': i}))
    # a command accepting exactly a given history: original; the nullary
    # definition inlined (its body object then also lives in the untouched
    # define-fun); the inlined copy replaced by its child
    import refreader
    head = ('(declare-const a Int)\n(declare-const b Int)\n'
            '(define-fun f () Int (+ a b))\n')
    hist = [head + '(assert (> f 0))\n(check-sat)\n',
            head + '(assert (> (+ a b) 0))\n(check-sat)\n',
            head + '(assert (> a 0))\n(check-sat)\n']
    member = {'mode': 'member', 'members': [refreader.lex(t) for t in hist]}
    for st in ('hierarchical', 'hybrid'):
        cfgs.append((hist[0], dict(member, delay_ms=1),
                     ['--strategy', st, '-j', '1'],
                     {'strategy': st, 'n': f'm{st}'}))
    # a sharing step accepted in a PARALLEL ddmin round (more than 2 x jobs
    # subsets), followed by further rounds: one variable may be eliminated,
    # never two at once, so the first acceptance falls into granularity 1
    nv = 12
    etext = ''.join(f'(declare-const x{k} Int)\n(declare-const y{k} Int)\n'
                    for k in range(nv)) + ''.join(
        f'(assert (= x{k} (+ y{k} 1)))\n(assert (> (* x{k} x{k}) 0))\n'
        for k in range(nv)) + '(check-sat)\n'
    espec = {'mode': 'atmost', 'tokens': [f'x{k}' for k in range(nv)],
             'min_count': 4, 'max': 1, 'markers': ['check-sat'],
             'delay_ms': 2}
    for st, j in (('ddmin', 2), ('ddmin', 3), ('hybrid', 2)):
        cfgs.append((etext, dict(espec),
                     ['--strategy', st, '-j', str(j), '--disable-all',
                      '--eliminate-variables'],
                     {'strategy': st, 'n': f'e{st}{j}'}))
    for k, (text, spec) in enumerate(DIRECTED):
        for st in ('ddmin', 'hybrid', 'hierarchical'):
            for j in ((1, ) if tier == 'quick' else (1, 2)):
                cfgs.append((text, dict(spec, delay_ms=1),
                             ['--strategy', st, '-j', str(j)],
                             {'strategy': st, 'n': f'd{k}'}))
    items = S.validate(rep, S.execute(cfgs, label='c13'))
    nshared = 0
    for it in items:
        rep.count()
        if it.run.timed_out or it.run.status != 0:
            continue
        # runs in which sharing really arose before a reduplicate
        if any(e['ev'] == 'redup' and e['before_distinct'] is False
               for e in it.run.events):
            nshared += 1
            rep.nontrivial('run:' + common.digest(S.describe(it)))
        S.trace_violations(rep, it, TREE_CLAUSES, prefix='run:')
    rep.cov['runs'] = len(items)
    rep.cov['runs_in_which_sharing_arose'] = nshared
    S.cleanup(items)
    light_runs(rep, tier)


ELIM = ('(declare-const a Int)\n(declare-const b Int)\n'
        '(declare-const c Int)\n(declare-const d Int)\n'
        '(assert (> (+ a 1) 0))\n(assert (< (* a 2) (+ a c)))\n'
        '(assert (= a b))\n(assert (> (+ c d) (- c 1)))\n'
        '(assert (= c (+ d 1)))\n')


def light_runs(rep, tier):
    """Runs observed WITHOUT creating a node in ddSMT's main process
    (launcher light mode), with only the sharing mutator enabled: the ids the
    main process draws for re-duplication then come right after those the
    workers drew for the parents they rebuilt.  The recorded inputs of every
    producer / generator and every (argument, result) of reduplicate are
    judged by TLC (Conform: ReduplicateOK, DistinctIds)."""
    import conform
    import runs
    cases, what = [], {}

    def fix(fr):
        def go(n):
            return {'id': n['id'], 't': n['t'], 'd': conform.enc_text(n['d']),
                    'k': [go(c) for c in n['k']]}
        return [go(n) for n in fr]

    cfgs = [('hierarchical', 1), ('hierarchical', 3), ('ddmin', 2),
            ('hybrid', 2)]
    for k, (st, j) in enumerate(cfgs):
        wd = common.subscratch(f'c13-light{k}')
        r = runs.run_ddsmt(wd, ELIM, {'mode': 'always', 'delay_ms': 1},
                           ['--strategy', st, '-j', str(j), '--disable-all',
                            '--eliminate-variables'],
                           env_extra={'VERIF_LIGHT': '1'}, timeout=120)
        rep.count()
        if r.timed_out or r.status != 0:
            raise common.MachineryError(
                f'light run {st} -j {j} failed: status {r.status}')
        for e in r.events:
            if e['ev'] in ('sweep', 'round') and e.get('forest') is not None:
                cid = len(cases)
                f = fix(e['forest'])
                cases.append({'cid': cid, 'kind': 'redup', 'f': f, 'g': f})
                what[cid] = (st, j, 'input of a ' + (
                    'producer' if e['ev'] == 'sweep' else 'task generator'),
                    e['base'])
            elif e['ev'] == 'redup' and e.get('f') is not None \
                    and e.get('g') is not None:
                cid = len(cases)
                cases.append({'cid': cid, 'kind': 'redup', 'f': fix(e['f']),
                              'g': fix(e['g'])})
                what[cid] = (st, j, 'result of reduplicate', None)
                if not e['before_distinct']:
                    rep.nontrivial('light:' + common.digest([st, j, cid]))
        import shutil
        shutil.rmtree(wd, ignore_errors=True)
    fails = conform.judge(rep, cases, 'c13-light')
    rep.cov['light_run_cases_judged'] = len(cases)
    seen = set()
    for cid, clause in sorted(fails.items()):
        st, j, where, base = what[cid]
        if (st, j, where) in seen:
            continue
        seen.add((st, j, where))
        rep.violation(
            f'run:light:{clause}:{where.replace(" ", "-")}:{st}',
            f'--strategy {st} -j {j} --disable-all --eliminate-variables, '
            f'observed without creating nodes in the main process: the '
            f'{where} fails {clause} (an identity at two positions)',
            {'forest': cases[cid]['f'], 'obs': None, 'light': [st, j]})


def main():
    a = common.std_args()
    ddsmt_env.load()
    from ddsmt import nodes
    F.reserve_ids(nodes.Node)
    rep = common.Report('C13', 'model_checking', a.tier)
    rep.cov['rule'] = (
        'every forest with sharing GenForest.tla generates within the bounds; '
        'one case per final state; non-trivial = some identity occurs at two '
        'positions; distinct by (tokens, identity sequence)')
    rep.assumptions += [
        'a node keeps its identity only if nothing below it had to be copied '
        '(a parent of a copied child is necessarily rebuilt)',
    ]
    if a.replay:
        with open(a.replay) as f:
            r = json.load(f)['replay']
        if r.get('light'):
            light_runs(rep, a.tier)
            return rep.finish()
        bad = check_redup(nodes, r['forest'], r['obs'])
        print(bad)
        if bad:
            print('VIOLATION property=C13 replay=' + a.replay)
        return 1 if bad else 0
    n = 0
    for cfg, tmo in CONFIGS[a.tier]:
        for st in common.tlc_generate(rep, 'MC_GenForest', cfg, timeout=tmo):
            recs, obs = st['stack'][0], st['obs']
            rep.count()
            n += 1
            if not obs['dist']:
                rep.nontrivial(
                    common.digest([list(map(str, obs['toks'])),
                                   list(obs['dfs'])]))
            for kind, msg in check_redup(nodes, recs, obs):
                nest = F.nested_of_recs(recs, expand)
                rep.violation(
                    f'{kind}:shared={shape_class(recs)}:forest='
                    f'{json.dumps(nest)}:ids={list(obs["dfs"])}',
                    msg + f' [forest {nest} ids {list(obs["dfs"])}]',
                    {'forest': recs, 'obs': obs})
            if n % 5000 == 1:
                rep.sample({
                    'forest': F.nested_of_recs(recs, expand),
                    'ids_dfs': list(obs['dfs']),
                    'distinct': obs['dist'],
                    'positions_that_must_keep_identity': sorted(obs['clean'])
                })
    rep.cov['traces_validated_against_impl'] = n
    rep.cov['exhaustive'] = True
    part_b(rep, a.tier)
    return rep.finish()


if __name__ == '__main__':
    common.main_wrapper(main)
