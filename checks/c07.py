"""C07 - rendering and re-parsing is the identity, in every output mode.

Decided by: SExpr!Tokens / Shape over every forest GenForest.tla generates
(abstract leaf labels), with the labels expanded to every pair of lexical
classes; each case is rendered by ddSMT's four renderers and the text is read
back by the reference reader (validated against LexerOps.tla by C08) and by
ddSMT's own parser.  A sample of (forest, rendered text) pairs is judged by TLC
itself (Conform.tla: LexText(text) = Tokens(forest)).
"""
import itertools
import json
import os
import random
import sys

sys.path.insert(0, os.path.join(os.path.dirname(os.path.abspath(__file__)),
                                '..', 'lib'))
import common  # noqa: E402
import conform  # noqa: E402
import ddsmt_env  # noqa: E402
import forest as F  # noqa: E402
import refreader  # noqa: E402

CONFIGS = {
    'quick': [('MC_GenForest_c07q.cfg', 900)],
    'thorough': [('MC_GenForest_c07t.cfg', 3000)],
}

LONG = 'x' * 85
CLASSES = {
    'sym': 'a',
    'hyph': 'aa-bb-cc',
    'long': LONG,
    'longhyph': 'y' * 40 + '-' + 'z' * 45,
    'num': '42',
    'kw': ':named',
    'hex': '#x0F',
    'str': '"s"',
    'str_sp': '"a  b"',
    'str_par': '"(a) )b"',
    'str_semi': '"a;b"',
    'str_nl': '"a\nb"',
    'str_dq': '"a""b"',
    'str_nlnl': '"a\n\nb"',
    'q_nlnl': '|a\n\n\nb|',
    'str_dq_sp': '"a"" b  c d e f g h i j"',
    'str_nl_long': '"a\n' + 'w ' * 45 + 'e"',
    'q_nl_long': '|a\n' + 'v ' * 45 + 'e|',
    'str_empty': '""',
    'q_sp': '|a  b|',
    'q_nl': '|a\n b|',
    'q_semi': '|a;b("|',
    'com': '; a comment (with paren\n',
}
# width-sensitive variants: symbols whose length pushes the next token
# around column 78 of a one-line rendering
PADS = [60, 68, 70, 72, 73, 74, 75, 76, 77, 78]

MODES = ['checking', 'default', 'pretty', 'wrap', 'pretty+wrap']


def render(mods, mode, exprs, tmpfile):
    nodeio, options = mods['nodeio'], mods['options']
    a = options.args()
    a.pretty_print = mode in ('pretty', 'pretty+wrap')
    a.wrap_lines = mode in ('wrap', 'pretty+wrap')
    try:
        if mode == 'checking':
            nodeio.write_smtlib_for_checking(tmpfile, exprs)
            with open(tmpfile) as f:
                return f.read()
        return nodeio.write_smtlib_to_str(exprs)
    finally:
        a.pretty_print = False
        a.wrap_lines = False


def strip_eol(t):
    return t.rstrip('\r\n') if t.startswith(';') else t


def norm_nested(x):
    if isinstance(x, str):
        return strip_eol(x)
    return [norm_nested(y) for y in x]


def judge_text(mods, text, exp_tokens, exp_nested):
    """-> None or (clause, detail)."""
    try:
        toks, _ = refreader.read(text)
    except refreader.ReadError as e:
        return ('unreadable', str(e))
    if toks != exp_tokens:
        return ('tokens', f'tokens {toks!r}')
    try:
        back = list(mods['nodeio'].parse_smtlib(text))
        nb = norm_nested(F.nested_of_nodes(back))
    except Exception as e:  # noqa
        return ('reparse-exception', repr(e))
    if nb != exp_nested:
        return ('reparse-shape', f're-parsed as {nb!r}')
    return None


def _replay_part(job):
    """Replay every k-th forest (fork-pool worker): returns counts,
    violations, digests of non-trivial cases, a sample for TLC."""
    k0, step, states, tier, seed = job
    ddsmt_env.load()
    mods = ddsmt_env.mods()
    Node = mods['nodes'].Node
    tmpfile = os.path.join(common.subscratch('c07'), f'cand{k0}.smt2')
    rnd = random.Random(seed * 1000 + k0)
    names = sorted(CLASSES)
    pairs_all = list(itertools.product(names, names))
    out = {'n': 0, 'viol': [], 'nontrivial': set(), 'tlc': [], 'samples': []}
    for nf0 in range(k0, len(states), step):
        recs, obs = states[nf0]
        nf = nf0 + 1
        used = sorted({''.join(t) for t in obs['toks']} - {'LP', 'RP'})
        if tier == 'quick':
            third = [p for k, p in enumerate(pairs_all)
                     if (k + nf) % 3 == 0]
        else:
            third = pairs_all
        if len(used) <= 1:
            assigns = [{u: c for u in used} for c in names] if used else [{}]
        else:
            assigns = [dict(zip(used, p)) for p in third]
            for d in assigns:
                for u in used[2:]:
                    d[u] = d[used[1]]      # further labels: the second class
        # padded variants: first label is a symbol of a given length
        for pad in PADS:
            for c in (names if len(used) > 1 else ['sym']):
                if used:
                    d = {used[0]: 'P%d' % pad}
                    if len(used) > 1:
                        d[used[1]] = c
                    for u in used[2:]:
                        d[u] = c
                    assigns.append(d)
        for asg in assigns:
            labels = {
                k: ('p' * int(v[1:]) if v.startswith('P') else CLASSES[v])
                for k, v in asg.items()
            }
            padded = any(v.startswith('P') for v in asg.values())
            exprs = F.build_nodes(Node, recs, lambda d: labels[''.join(d)])
            nested = norm_nested(F.nested_of_nodes(exprs))
            exp_tokens = F.tokens_of_nested(nested)
            for mode in (['wrap', 'pretty+wrap'] if padded else MODES):
                out['n'] += 1
                try:
                    text = render(mods, mode, exprs, tmpfile)
                except Exception as e:  # noqa
                    v = ('render-exception', repr(e))
                    text = None
                else:
                    v = judge_text(mods, text, exp_tokens, nested)
                if obs['cn'] >= 3:
                    out['nontrivial'].add(common.digest([exp_tokens, mode]))
                if v:
                    cls = '+'.join(sorted(set(
                        'pad' if x.startswith('P') else x
                        for x in asg.values())))
                    out['viol'].append((
                        f'{mode}:{v[0]}:classes={cls}:forest='
                        f'{json.dumps(F.nested_of_recs(recs, "".join))}'
                        f':{json.dumps(asg, sort_keys=True)}',
                        f'{mode} rendering {text!r} of {nested!r}: '
                        f'{v[0]} {v[1]}'[:500],
                        {'forest': recs, 'labels': labels, 'mode': mode}))
                elif rnd.random() < (0.004 if tier == 'quick' else 0.001):
                    out['tlc'].append((conform.enc_forest(exprs, with_ids=False),
                                       text, mode))
                if out['n'] % 60000 == 1 and len(out['samples']) < 1:
                    out['samples'].append({'forest': nested, 'mode': mode,
                                           'rendered': text, 'ok': v is None})
    out['nontrivial'] = list(out['nontrivial'])
    return out


def main():
    a = common.std_args()
    ddsmt_env.load()
    mods = ddsmt_env.mods()
    Node = mods['nodes'].Node
    rep = common.Report('C07', 'model_checking', a.tier)
    rep.cov['rule'] = (
        'every forest GenForest.tla generates (no sharing) x every ordered '
        'pair of lexical classes for its two leaf labels (quick: pairs with '
        'the first label from a rotating third of the classes) x 5 output '
        'configurations (checking, default, --pretty-print, --wrap-lines, '
        'both), '
        'plus padded variants for --wrap-lines that move each class across '
        'column 70..80; non-trivial = at least 2 leaves or a nested list; '
        'distinct by (forest, class assignment, renderer)')
    rep.assumptions += [
        'leaf texts are those the parser can produce: no empty leaf, comments '
        'end with a line break',
        'one representative text per lexical class',
        'token comparison uses the reference reader, validated against '
        'LexerOps.tla by C08',
    ]
    tmpfile = os.path.join(common.subscratch('c07'), 'cand.smt2')
    rnd = random.Random(common.seed())
    if a.replay:
        with open(a.replay) as f:
            r = json.load(f)['replay']
        exprs = F.build_nodes(Node, r['forest'], lambda d: r['labels'][''.join(d)])
        text = render(mods, r['mode'], exprs, tmpfile)
        nested = norm_nested(F.nested_of_nodes(exprs))
        v = judge_text(mods, text, F.tokens_of_nested(nested), nested)
        print(repr(text), v)
        if v:
            print('VIOLATION property=C07 replay=' + a.replay)
        return 1 if v else 0
    states = []
    for cfg, tmo in CONFIGS[a.tier]:
        for st in common.tlc_generate(rep, 'MC_GenForest', cfg, timeout=tmo):
            if st['stack'][0]:
                states.append((st['stack'][0], st['obs']))
    nproc = common.NCPU
    jobs = [(k, nproc, states, a.tier, common.seed()) for k in range(nproc)]
    import multiprocessing
    with multiprocessing.get_context('fork').Pool(nproc) as pool:
        parts = pool.map(_replay_part, jobs)
    tlc_cases = []
    n = 0
    nf = len(states)
    for part in parts:
        n += part['n']
        rep.count(part['n'])
        for d in part['nontrivial']:
            rep.nontrivial(d)
        for sig, msg, rp in part['viol']:
            rep.violation(sig, msg, rp)
        tlc_cases += part['tlc']
        for smp in part['samples']:
            rep.sample(smp)
    # code -> spec: TLC judges a sample of real renderings
    cases = []
    for k, (encf, text, mode) in enumerate(tlc_cases[:4000]):
        cases.append({
            'cid': k,
            'kind': 'render',
            'f': encf,
            'text': conform.enc_text(text)
        })
    fails = conform.judge(rep, cases, 'c07')
    for cid, clause in fails.items():
        exprs, text, mode = tlc_cases[cid]
        rep.violation(
            f'tlc-judged:{mode}:{clause}:text={json.dumps(text)}',
            f'TLC (Conform.tla) rejects rendering {text!r}: {clause}',
            {'text': text, 'mode': mode})
    rep.cov['traces_validated_against_impl'] = len(cases)
    rep.cov['forests'] = nf
    rep.cov['exhaustive'] = True
    return rep.finish()


if __name__ == '__main__':
    common.main_wrapper(main)
