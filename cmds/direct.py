#!/venv/bin/python
"""Scripted command whose exit code and streams are dictated by a directive
in the file it is given:  a comment line  ; DIRECT {json}  with keys
main/cc -> {"exit": n, "out": str, "err": str}.
usage: direct.py ROLE LOGFILE [extra args...] FILE"""
import json
import os
import sys


def main():
    role, log = sys.argv[1], sys.argv[2]
    path = sys.argv[-1]
    d = {}
    with open(path) as f:
        for line in f:
            if line.startswith('; DIRECT '):
                d = json.loads(line[len('; DIRECT '):])
    beh = d.get(role, {'exit': 0, 'out': '', 'err': ''})
    fd = os.open(log, os.O_WRONLY | os.O_APPEND | os.O_CREAT, 0o644)
    os.write(fd, (json.dumps({'role': role, 'argv': sys.argv[1:],
                              'case': d.get('case')}) + '\n').encode())
    os.close(fd)
    sys.stdout.write(beh['out'])
    sys.stderr.write(beh['err'])
    sys.stdout.flush()
    sys.stderr.flush()
    os._exit(beh['exit'])


if __name__ == '__main__':
    main()
