/* Scripted command for C10: behaviour is a function of the tokens of FILE.
 *   usage: faultcmd LOGFILE SPEC FILE
 *   SPEC = "keep=tok1,tok2;hang=h1;spin=s1;alloc=a1;signal=k1;grand=g1"
 * If a fault marker token is ABSENT from the file the corresponding fault is
 * performed (hang: sleep forever; spin: busy loop; alloc: allocate until
 * failure, then exit 3; signal: kill itself with SIGSEGV; grand: fork a
 * grandchild that keeps stdout/stderr open and sleeps, then exit like
 * "accept"; slow: answer like "accept" after 0.65 s).  Otherwise: all keep-tokens present -> "bug" (exit 1), else
 * "ok" (exit 0).  One line is appended to LOGFILE per invocation.
 * "sleepif=TOKEN:MS" delays the answer by MS milliseconds when TOKEN is
 * PRESENT in the file (a slow golden run without slow candidates).
 * "allocaccept=1": the accepting behaviour is to allocate until failure
 * (exit 3; exit 4 if 1.5 GB could be had): a failure that IS the exhaustion
 * of the memory limit.
 * "killaccept=1": the accepting behaviour is to die from SIGKILL (an
 * out-of-memory kill, a watchdog): exit status -9, no output.
 */
#include <fcntl.h>
#include <signal.h>
#include <stdio.h>
#include <stdlib.h>
#include <string.h>
#include <sys/mman.h>
#include <sys/prctl.h>
#include <unistd.h>

static char *text;

static int has_token(const char *tok) {
  size_t n = strlen(tok);
  const char *p = text;
  while ((p = strstr(p, tok)) != NULL) {
    int left = (p == text) || strchr(" \t\r\n()", p[-1]) != NULL;
    int right = p[n] == 0 || strchr(" \t\r\n()", p[n]) != NULL;
    if (left && right) return 1;
    p += 1;
  }
  return 0;
}

static void logline(const char *path, const char *what) {
  char buf[256];
  int n = snprintf(buf, sizeof buf, "%d %s\n", (int)getpid(), what);
  int fd = open(path, O_WRONLY | O_APPEND | O_CREAT, 0644);
  if (fd >= 0) { if (write(fd, buf, n) < 0) {} close(fd); }
}

int main(int argc, char **argv) {
  if (argc < 4) return 64;
  /* a command that does not die from a polite request: only SIGKILL ends it */
  signal(SIGTERM, SIG_IGN);
  const char *logf = argv[1];
  char *spec = strdup(argv[2]);
  FILE *f = fopen(argv[argc - 1], "rb");
  if (!f) return 65;
  fseek(f, 0, SEEK_END); long sz = ftell(f); fseek(f, 0, SEEK_SET);
  text = malloc(sz + 1);
  if (fread(text, 1, sz, f) != (size_t)sz) return 66;
  text[sz] = 0; fclose(f);
  int keep_ok = 1;
  int killaccept = 0;
  int allocaccept = 0;
  const char *fault = NULL;
  char *save1;
  for (char *part = strtok_r(spec, ";", &save1); part; part = strtok_r(NULL, ";", &save1)) {
    char *eq = strchr(part, '=');
    if (!eq) continue;
    *eq = 0;
    if (strcmp(part, "killaccept") == 0) { killaccept = 1; continue; }
    if (strcmp(part, "allocaccept") == 0) { allocaccept = 1; continue; }
    if (strcmp(part, "sleepif") == 0) {
      char *colon = strchr(eq + 1, ':');
      if (colon) {
        *colon = 0;
        if (has_token(eq + 1)) usleep((useconds_t)atoi(colon + 1) * 1000);
      }
      continue;
    }
    char *save2;
    for (char *tok = strtok_r(eq + 1, ",", &save2); tok; tok = strtok_r(NULL, ",", &save2)) {
      if (!has_token(tok)) {
        if (strcmp(part, "keep") == 0) keep_ok = 0;
        else if (!fault) fault = part;
      }
    }
  }
  if (fault) {
    logline(logf, fault);
    if (strcmp(fault, "hang") == 0) { for (;;) sleep(1000); }
    if (strcmp(fault, "spin") == 0) { volatile unsigned long x = 0; for (;;) x++; }
    if (strcmp(fault, "alloc") == 0) {
      /* safety cap: never take more than 1.5 GB even if no limit is enforced */
      for (int i = 0; i < 1536; i++) { char *p = malloc(1 << 20); if (!p) { return 3; } memset(p, 1, 1 << 20); }
      return 4;
    }
    if (strcmp(fault, "signal") == 0) { raise(SIGSEGV); return 70; }
    if (strcmp(fault, "mmap") == 0 || strcmp(fault, "mmapfast") == 0) {
      /* "mmap" gives the caller a moment to install its limits first;
         "mmapfast" maps at once */
      if (strcmp(fault, "mmap") == 0) usleep(250 * 1000);
      /* exceeds a memory limit through an anonymous shared mapping (not the
         heap); if the mapping is refused the run fails like "alloc" */
      size_t n = (size_t)384 << 20;
      char *p = mmap(NULL, n, PROT_READ | PROT_WRITE, MAP_SHARED | MAP_ANONYMOUS, -1, 0);
      if (p == MAP_FAILED) return 3;
      for (size_t i = 0; i < n; i += 4096) p[i] = 1;
      /* fall through: behave like the predicate says */
    }
    if (strcmp(fault, "slow") == 0) {
      /* overruns a sub-second limit, but by less than a second */
      usleep(650 * 1000);
      /* fall through: behave like the predicate says */
    }
    if (strcmp(fault, "grand") == 0) {
      if (fork() == 0) { prctl(PR_SET_NAME, "grandkid"); sleep(30); _exit(0); }
      /* fall through: behave like the predicate says */
    }
  } else {
    logline(logf, keep_ok ? "accept" : "reject");
  }
  if (keep_ok && killaccept) { raise(SIGKILL); sleep(5); }
  if (keep_ok && allocaccept) {
    for (int i = 0; i < 1536; i++) { char *p = malloc(1 << 20); if (!p) { return 3; } memset(p, 1, 1 << 20); }
    return 4;
  }
  if (keep_ok) { printf("bug\n"); fflush(stdout); return 1; }
  printf("ok\n"); fflush(stdout); return 0;
}
