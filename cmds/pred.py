#!/venv/bin/python
"""Scripted command under test for ddSMT runs.

usage: pred.py SPEC.json FILE

Its behaviour (exit code, stdout, stderr) is a function of the TOKEN SEQUENCE
of FILE only (tokenised with the reference reader) - not of the file name,
pid or time.  Every invocation is logged (O_APPEND, one JSON line) to
spec["log"].  An optional deterministic delay (a function of the tokens and
spec["delay_seed"]) perturbs timing.
"""
import hashlib
import json
import os
import sys
import time

sys.path.insert(0, '/verif/lib')
import refreader  # noqa: E402


def h(*parts):
    m = hashlib.sha1()
    for p in parts:
        m.update(str(p).encode('utf-8', 'surrogatepass'))
        m.update(b'\0')
    return int(m.hexdigest()[:12], 16)


def holds(spec, toks):
    mode = spec.get('mode', 'contains')
    if mode == 'contains':
        return all(m in toks for m in spec['markers'])
    if mode == 'subseq':
        it = iter(toks)
        return all(any(t == m for t in it) for m in spec['markers'])
    if mode == 'count':
        return all(toks.count(m) >= k for m, k in spec['counts'].items())
    if mode == 'hash':
        if toks == spec.get('orig'):
            return True
        return (all(m in toks for m in spec.get('markers', []))
                and h(spec['seed'], *toks) % spec['mod'] < spec['thr'])
    if mode == 'parity':
        return (all(m in toks for m in spec.get('markers', []))
                and len(toks) % spec['k'] == spec['r'])
    if mode == 'balanced':
        # structure-sensitive: markers present and parentheses balanced
        d = 0
        for t in toks:
            d += (t == '(') - (t == ')')
            if d < 0:
                return False
        return d == 0 and all(m in toks for m in spec['markers'])
    if mode == 'atmost':
        # markers present, and at most `max` of the tokens `tokens` occur
        # fewer than `min_count` times (e.g. at most one variable eliminated)
        low = sum(1 for t in spec['tokens'] if toks.count(t) < spec['min_count'])
        return (all(m in toks for m in spec.get('markers', []))
                and low <= spec['max'])
    if mode == 'strlit':
        # markers present and some string literal left (whatever its text)
        return (all(m in toks for m in spec.get('markers', []))
                and any(t.startswith('"') for t in toks))
    if mode == 'app':
        # some application ( head X ) of `head` to exactly one atom
        hd = spec['head']
        if not all(m in toks for m in spec.get('markers', [])):
            return False
        return any(toks[i] == '(' and toks[i + 1] == hd
                   and toks[i + 2] not in '()' and toks[i + 3] == ')'
                   for i in range(len(toks) - 3))
    if mode == 'prod2':
        # some application ( head s t ) to exactly two different arguments,
        # neither of them a numeral
        hd = spec['head']
        if not all(m in toks for m in spec.get('markers', [])):
            return False

        def item(i):
            # end (exclusive) of the balanced item starting at i, or None
            if i >= len(toks) or toks[i] == ')':
                return None
            if toks[i] != '(':
                return i + 1
            d = 0
            for j in range(i, len(toks)):
                d += (toks[j] == '(') - (toks[j] == ')')
                if d == 0:
                    return j + 1
            return None

        for i in range(len(toks) - 4):
            if toks[i] == '(' and toks[i + 1] == hd:
                a = item(i + 2)
                b = item(a) if a else None
                if b and b < len(toks) and toks[b] == ')':
                    x, y = toks[i + 2:a], toks[a:b]
                    if x != y and not any(
                            len(z) == 1 and z[0].replace('.', '').isdigit()
                            for z in (x, y)):
                        return True
        return False
    if mode == 'member':
        return toks in spec['members']
    if mode == 'unbalanced':
        # a solver that fails on text that is not a sequence of complete
        # s-expressions ('unexpected end of file', 'unmatched )')
        d = 0
        for t in toks:
            d += (t == '(') - (t == ')')
            if d < 0:
                return True
        return d != 0
    if mode == 'always':
        return True
    if mode == 'never':
        return False
    raise SystemExit('unknown mode ' + mode)


def main():
    spec = json.load(open(sys.argv[1]))
    path = sys.argv[-1]
    with open(path, 'rb') as f:
        raw = f.read()
    text = raw.decode('utf-8', 'replace')
    try:
        toks = refreader.lex(text)
        err = None
    except refreader.ReadError as e:
        toks = ['<unreadable>', text]
        err = str(e)
    v = holds(spec, toks) if err is None else False
    if spec.get('sleep_ms'):
        time.sleep(spec['sleep_ms'] / 1000.0)
    sw = spec.get('slow_without')
    if sw and v and sw['token'] not in toks:
        # a solver that is slower on some of the inputs it accepts
        time.sleep(sw['ms'] / 1000.0)
    sw = spec.get('slow_with')
    if sw and sw['token'] in toks:
        # slow as long as some part of the input is there (also when rejecting)
        time.sleep(sw['ms'] / 1000.0)
    d = spec.get('delay_ms', 0)
    if d:
        time.sleep((h(spec.get('delay_seed', 0), *toks) % (d + 1)) / 1000.0)
    beh = spec['accept'] if v else spec['reject']
    near = spec.get('near')
    if not v and err is None and near and holds(near['pred'], toks):
        # a third behaviour, close to the accepting one (e.g. another text on
        # one stream); whether it matches the golden run depends on ddSMT's
        # comparison options, which the harness evaluated into 'acceptable'
        beh = near['beh']
        v = bool(near['acceptable'])
    if spec.get('log'):
        rec = {'pid': os.getpid(), 'argv': sys.argv[1:],
               'ext': os.path.splitext(path)[1], 'toks': toks, 'verdict': v,
               'raw_sha': hashlib.sha1(raw).hexdigest()[:16]}
        fd = os.open(spec['log'], os.O_WRONLY | os.O_APPEND | os.O_CREAT, 0o644)
        os.write(fd, (json.dumps(rec) + '\n').encode())
        os.close(fd)
    if spec.get('sched_sock'):
        # controlled completion order: block until the scheduler releases us
        import sched
        sched.client_wait(spec['sched_sock'],
                          {'pid': os.getpid(), 'ppid': os.getppid(),
                           'verdict': v, 'ntoks': len(toks),
                           'th': hashlib.sha1('\0'.join(toks).encode(
                               'utf-8', 'surrogatepass')).hexdigest()[:16]})
    if beh.get('ticks_ms'):
        # a hanging command that reports progress: one flushed line every
        # ticks_ms milliseconds, forever
        k = 0
        while True:
            sys.stdout.write('tick %d\n' % k)
            sys.stdout.flush()
            k += 1
            time.sleep(beh['ticks_ms'] / 1000.0)
    if beh.get('block_with_child_s'):
        # a wrapper whose solver blocks without using CPU: the child keeps
        # the pipes of the command open after the command itself was killed
        if os.fork() == 0:
            time.sleep(beh['block_with_child_s'])
            os._exit(0)
        time.sleep(beh['block_with_child_s'])
    if beh.get('sleep_ms'):
        time.sleep(beh['sleep_ms'] / 1000.0)     # e.g. beyond --timeout
    if beh.get('kill'):
        # die by a signal (an OOM kill, a watchdog): exit status -signal
        sys.stdout.flush()
        os.kill(os.getpid(), beh['kill'])
        time.sleep(5)
    if beh.get('out_hex'):
        # raw bytes (not necessarily text)
        sys.stdout.flush()
        sys.stdout.buffer.write(bytes.fromhex(beh['out_hex']))
    sys.stdout.write(beh.get('out', ''))
    sys.stderr.write(beh.get('err', ''))
    sys.stdout.flush()
    sys.stderr.flush()
    os._exit(beh.get('exit', 0))


if __name__ == '__main__':
    main()
